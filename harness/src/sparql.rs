//! SPARQL fragment used by C01/C02/C03/C17: lexical dataset model, owned query AST, printer,
//! reference evaluator (SPARQL 1.1 algebra, multiset semantics, nested loops — written from the
//! specification, never calling engine code) and proptest generators.
//!
//! Supported-fragment restrictions (see DESIGN.md C01 a–f) are enforced by construction in `build`.

use crate::engine::pick_idx;
use proptest::prelude::*;
use serde::{Deserialize, Serialize};
use std::collections::{BTreeMap, BTreeSet};

// ------------------------------------------------------------------------------------------
// terms and data
// ------------------------------------------------------------------------------------------

pub const NS: &str = "http://e/";
pub const RDF_TYPE: &str = "http://www.w3.org/1999/02/22-rdf-syntax-ns#type";

#[derive(Clone, Debug, Serialize, Deserialize, PartialEq, Eq, PartialOrd, Ord, Hash)]
pub enum Tm {
    Iri(String),
    Lit(String),
    Num(i64),
}

impl Tm {
    /// lexical form as stored in Kolibrie's dictionary
    pub fn lex(&self) -> String {
        match self {
            Tm::Iri(s) | Tm::Lit(s) => s.clone(),
            Tm::Num(n) => n.to_string(),
        }
    }
    /// SPARQL syntax
    pub fn sparql(&self, use_prefix: bool) -> String {
        match self {
            Tm::Iri(s) => {
                if use_prefix && s.starts_with(NS) && s[NS.len()..].chars().all(|c| c.is_ascii_alphanumeric()) && s.len() > NS.len() {
                    format!("e:{}", &s[NS.len()..])
                } else {
                    format!("<{}>", s)
                }
            }
            Tm::Lit(s) => format!("\"{}\"", s),
            Tm::Num(n) => n.to_string(),
        }
    }
}

pub type Triple3 = [Tm; 3];

#[derive(Clone, Debug, Serialize, Deserialize, PartialEq, Default)]
pub struct DataSet {
    /// default-graph triples in insertion order (duplicates possible: inserting twice is legal)
    pub default: Vec<Triple3>,
    /// named graphs in creation order; an entry with no triples is an empty catalogued graph
    pub named: Vec<(String, Vec<Triple3>)>,
}

#[derive(Clone, Debug, Default, PartialEq, Eq)]
pub struct LexData {
    pub default: BTreeSet<[String; 3]>,
    pub named: BTreeMap<String, BTreeSet<[String; 3]>>,
}

impl DataSet {
    pub fn lexical(&self) -> LexData {
        let mut l = LexData::default();
        for t in &self.default {
            l.default.insert([t[0].lex(), t[1].lex(), t[2].lex()]);
        }
        for (g, ts) in &self.named {
            let e = l.named.entry(g.clone()).or_default();
            for t in ts {
                e.insert([t[0].lex(), t[1].lex(), t[2].lex()]);
            }
        }
        l
    }
    pub fn size(&self) -> usize {
        self.default.len() + self.named.iter().map(|(_, t)| t.len()).sum::<usize>()
    }
}

// ------------------------------------------------------------------------------------------
// query AST
// ------------------------------------------------------------------------------------------

#[derive(Clone, Debug, Serialize, Deserialize, PartialEq)]
pub enum PT {
    Var(String),
    C(Tm),
}

#[derive(Clone, Debug, Serialize, Deserialize, PartialEq)]
pub enum GName {
    Var(String),
    Iri(String),
}

#[derive(Clone, Copy, Debug, Serialize, Deserialize, PartialEq)]
pub enum Op {
    Eq,
    Ne,
    Lt,
    Le,
    Gt,
    Ge,
}

impl Op {
    pub fn s(self) -> &'static str {
        match self {
            Op::Eq => "=",
            Op::Ne => "!=",
            Op::Lt => "<",
            Op::Le => "<=",
            Op::Gt => ">",
            Op::Ge => ">=",
        }
    }
    pub fn num(self, a: f64, b: f64) -> bool {
        match self {
            Op::Eq => a == b,
            Op::Ne => a != b,
            Op::Lt => a < b,
            Op::Le => a <= b,
            Op::Gt => a > b,
            Op::Ge => a >= b,
        }
    }
}

#[derive(Clone, Debug, Serialize, Deserialize, PartialEq)]
pub enum Arith {
    Var(String),
    Num(i64),
    Add(Box<Arith>, Box<Arith>),
    Sub(Box<Arith>, Box<Arith>),
    Mul(Box<Arith>, Box<Arith>),
}

#[derive(Clone, Debug, Serialize, Deserialize, PartialEq)]
pub enum FExpr {
    /// variable OP constant-or-variable
    Cmp(String, Op, PT),
    ArithCmp(Arith, Op, Arith),
    And(Box<FExpr>, Box<FExpr>),
    Or(Box<FExpr>, Box<FExpr>),
    Not(Box<FExpr>),
}

#[derive(Clone, Debug, Serialize, Deserialize, PartialEq)]
pub enum BArg {
    Var(String),
    Str(String),
}

#[derive(Clone, Debug, Serialize, Deserialize, PartialEq)]
pub enum Elem {
    Bgp(Vec<[PT; 3]>),
    Group(Vec<Elem>),
    Union(Vec<Vec<Elem>>),
    Graph(GName, Vec<Elem>),
    Filter(FExpr),
    Bind(Vec<BArg>, String),
    Values(Vec<String>, Vec<Vec<Option<Tm>>>),
    Sub(Box<Select>),
}

#[derive(Clone, Copy, Debug, Serialize, Deserialize, PartialEq)]
pub enum AggKind {
    Sum,
    Min,
    Max,
    Avg,
}

impl AggKind {
    pub fn s(self) -> &'static str {
        match self {
            AggKind::Sum => "SUM",
            AggKind::Min => "MIN",
            AggKind::Max => "MAX",
            AggKind::Avg => "AVG",
        }
    }
}

#[derive(Clone, Debug, Serialize, Deserialize, PartialEq)]
pub enum ProjItem {
    Var(String),
    Agg(AggKind, String, String), // kind, input variable, alias
}

#[derive(Clone, Debug, Serialize, Deserialize, PartialEq)]
pub enum Proj {
    Star,
    Items(Vec<ProjItem>),
}

#[derive(Clone, Debug, Serialize, Deserialize, PartialEq)]
pub struct Select {
    pub distinct: bool,
    pub proj: Proj,
    pub from: Vec<String>,
    pub from_named: Vec<String>,
    pub body: Vec<Elem>,
    pub group_by: Vec<String>,
    pub order: Vec<(String, bool)>, // (variable, descending)
    pub limit: Option<usize>,
}

impl Select {
    pub fn has_agg(&self) -> bool {
        matches!(&self.proj, Proj::Items(it) if it.iter().any(|i| matches!(i, ProjItem::Agg(..))))
    }
    /// output columns (variable names without '?')
    pub fn columns(&self) -> Vec<String> {
        match &self.proj {
            Proj::Star => {
                let mut v = vec![];
                collect_vars_elems(&self.body, &mut v);
                v
            }
            Proj::Items(items) => items
                .iter()
                .map(|i| match i {
                    ProjItem::Var(v) => v.clone(),
                    ProjItem::Agg(_, _, a) => a.clone(),
                })
                .collect(),
        }
    }
}

fn push_var(v: &mut Vec<String>, x: &str) {
    if !v.iter().any(|y| y == x) {
        v.push(x.to_string());
    }
}

/// Variables in order of first syntactic appearance (how `SELECT *` columns are laid out).
pub fn collect_vars_elems(elems: &[Elem], out: &mut Vec<String>) {
    for e in elems {
        match e {
            Elem::Bgp(ts) => {
                for t in ts {
                    for x in t {
                        if let PT::Var(v) = x {
                            push_var(out, v);
                        }
                    }
                }
            }
            Elem::Group(g) => collect_vars_elems(g, out),
            Elem::Union(bs) => {
                for b in bs {
                    collect_vars_elems(b, out);
                }
            }
            Elem::Graph(n, g) => {
                if let GName::Var(v) = n {
                    push_var(out, v);
                }
                collect_vars_elems(g, out);
            }
            Elem::Filter(_) => {}
            Elem::Bind(_, v) => push_var(out, v),
            Elem::Values(vs, _) => {
                for v in vs {
                    push_var(out, v);
                }
            }
            Elem::Sub(s) => {
                for c in s.columns() {
                    push_var(out, &c);
                }
            }
        }
    }
}

// ------------------------------------------------------------------------------------------
// printer
// ------------------------------------------------------------------------------------------

pub struct Printer {
    pub use_prefix: bool,
}

impl Printer {
    fn pt(&self, t: &PT, pred: bool) -> String {
        match t {
            PT::Var(v) => format!("?{v}"),
            PT::C(Tm::Iri(i)) if pred && i == RDF_TYPE && self.use_prefix => "a".to_string(),
            PT::C(c) => c.sparql(self.use_prefix),
        }
    }
    fn arith(&self, a: &Arith) -> String {
        match a {
            Arith::Var(v) => format!("?{v}"),
            Arith::Num(n) => n.to_string(),
            Arith::Add(l, r) => format!("({} + {})", self.arith(l), self.arith(r)),
            Arith::Sub(l, r) => format!("({} - {})", self.arith(l), self.arith(r)),
            Arith::Mul(l, r) => format!("({} * {})", self.arith(l), self.arith(r)),
        }
    }
    pub fn fexpr(&self, f: &FExpr) -> String {
        match f {
            FExpr::Cmp(v, op, r) => format!("?{v} {} {}", op.s(), self.pt(r, false)),
            FExpr::ArithCmp(l, op, r) => format!("{} {} {}", self.arith(l), op.s(), self.arith(r)),
            FExpr::And(l, r) => format!("({} && {})", self.fexpr(l), self.fexpr(r)),
            FExpr::Or(l, r) => format!("({} || {})", self.fexpr(l), self.fexpr(r)),
            FExpr::Not(i) => format!("!({})", self.fexpr(i)),
        }
    }
    pub fn elems(&self, elems: &[Elem]) -> String {
        let mut s = String::new();
        for e in elems {
            match e {
                Elem::Bgp(ts) => {
                    for t in ts {
                        s.push_str(&format!("{} {} {} . ", self.pt(&t[0], false), self.pt(&t[1], true), self.pt(&t[2], false)));
                    }
                }
                Elem::Group(g) => s.push_str(&format!("{{ {}}} ", self.elems(g))),
                Elem::Union(bs) => {
                    let parts: Vec<String> = bs.iter().map(|b| format!("{{ {}}}", self.elems(b))).collect();
                    s.push_str(&parts.join(" UNION "));
                    s.push(' ');
                }
                Elem::Graph(n, g) => {
                    let name = match n {
                        GName::Var(v) => format!("?{v}"),
                        GName::Iri(i) => Tm::Iri(i.clone()).sparql(self.use_prefix),
                    };
                    s.push_str(&format!("GRAPH {} {{ {}}} ", name, self.elems(g)));
                }
                Elem::Filter(f) => s.push_str(&format!("FILTER({}) ", self.fexpr(f))),
                Elem::Bind(args, out) => {
                    let a: Vec<String> = args
                        .iter()
                        .map(|a| match a {
                            BArg::Var(v) => format!("?{v}"),
                            BArg::Str(x) => format!("\"{x}\""),
                        })
                        .collect();
                    s.push_str(&format!("BIND(CONCAT({}) AS ?{}) ", a.join(", "), out));
                }
                Elem::Values(vars, rows) => {
                    let cell = |c: &Option<Tm>| match c {
                        None => "UNDEF".to_string(),
                        Some(t) => t.sparql(self.use_prefix),
                    };
                    if vars.len() == 1 {
                        let r: Vec<String> = rows.iter().map(|r| cell(&r[0])).collect();
                        s.push_str(&format!("VALUES ?{} {{ {} }} ", vars[0], r.join(" ")));
                    } else {
                        let vs: Vec<String> = vars.iter().map(|v| format!("?{v}")).collect();
                        let r: Vec<String> = rows.iter().map(|r| format!("({})", r.iter().map(cell).collect::<Vec<_>>().join(" "))).collect();
                        s.push_str(&format!("VALUES ({}) {{ {} }} ", vs.join(" "), r.join(" ")));
                    }
                }
                Elem::Sub(q) => s.push_str(&format!("{{ {} }} ", self.select(q))),
            }
        }
        s
    }
    pub fn select(&self, q: &Select) -> String {
        let mut s = String::from("SELECT ");
        if q.distinct {
            s.push_str("DISTINCT ");
        }
        match &q.proj {
            Proj::Star => s.push_str("* "),
            Proj::Items(items) => {
                for i in items {
                    match i {
                        ProjItem::Var(v) => s.push_str(&format!("?{v} ")),
                        ProjItem::Agg(k, v, a) => s.push_str(&format!("({}(?{v}) AS ?{a}) ", k.s())),
                    }
                }
            }
        }
        for g in &q.from {
            s.push_str(&format!("FROM {} ", Tm::Iri(g.clone()).sparql(self.use_prefix)));
        }
        for g in &q.from_named {
            s.push_str(&format!("FROM NAMED {} ", Tm::Iri(g.clone()).sparql(self.use_prefix)));
        }
        s.push_str(&format!("WHERE {{ {}}}", self.elems(&q.body)));
        if !q.group_by.is_empty() {
            s.push_str(" GROUP BY");
            for v in &q.group_by {
                s.push_str(&format!(" ?{v}"));
            }
        }
        if !q.order.is_empty() {
            s.push_str(" ORDER BY");
            for (v, desc) in &q.order {
                if *desc {
                    s.push_str(&format!(" DESC(?{v})"));
                } else {
                    s.push_str(&format!(" ?{v}"));
                }
            }
        }
        if let Some(l) = q.limit {
            s.push_str(&format!(" LIMIT {l}"));
        }
        s
    }
    pub fn query(&self, q: &Select) -> String {
        if self.use_prefix {
            format!("PREFIX e: <{NS}> {}", self.select(q))
        } else {
            self.select(q)
        }
    }
}

// ------------------------------------------------------------------------------------------
// reference evaluator
// ------------------------------------------------------------------------------------------

pub type Sol = BTreeMap<String, String>;

pub struct EvalCtx<'a> {
    pub data: &'a LexData,
    /// the query's default graph (merge of FROM graphs, or the physical default graph)
    pub default: BTreeSet<[String; 3]>,
    /// visible named graphs (catalogued ones that the dataset clause exposes)
    pub visible: BTreeSet<String>,
    /// set when the evaluation met a situation whose result the property does not determine
    pub ambiguous: std::cell::Cell<u32>,
    /// set when an expression referenced an unbound variable (outside the supported fragment)
    pub out_of_fragment: std::cell::Cell<u32>,
    /// > 0 while a nested select is being evaluated (its values flow into the enclosing pattern)
    pub nested: std::cell::Cell<u32>,
}

impl<'a> EvalCtx<'a> {
    pub fn new(data: &'a LexData, from: &[String], from_named: &[String]) -> Self {
        let (default, visible) = if from.is_empty() && from_named.is_empty() {
            (data.default.clone(), data.named.keys().cloned().collect())
        } else {
            let mut d = BTreeSet::new();
            for g in from {
                if let Some(ts) = data.named.get(g) {
                    d.extend(ts.iter().cloned());
                }
            }
            let v = from_named.iter().filter(|g| data.named.contains_key(*g)).cloned().collect();
            (d, v)
        };
        EvalCtx { data, default, visible, ambiguous: Default::default(), out_of_fragment: Default::default(), nested: Default::default() }
    }
}

#[derive(Clone, Debug, PartialEq)]
pub enum Active {
    Default,
    Named(String),
}

fn compatible_merge(a: &Sol, b: &Sol) -> Option<Sol> {
    for (k, v) in b {
        if let Some(x) = a.get(k) {
            if x != v {
                return None;
            }
        }
    }
    let mut m = a.clone();
    for (k, v) in b {
        m.entry(k.clone()).or_insert_with(|| v.clone());
    }
    Some(m)
}

pub fn join(a: &[Sol], b: &[Sol]) -> Vec<Sol> {
    let mut out = vec![];
    for x in a {
        for y in b {
            if let Some(m) = compatible_merge(x, y) {
                out.push(m);
            }
        }
    }
    out
}

fn match_pt(p: &PT, val: &str, sol: &mut Sol) -> bool {
    match p {
        PT::C(c) => c.lex() == val,
        PT::Var(v) => match sol.get(v) {
            Some(x) => x == val,
            None => {
                sol.insert(v.clone(), val.to_string());
                true
            }
        },
    }
}

fn eval_bgp(ts: &[[PT; 3]], graph: &BTreeSet<[String; 3]>) -> Vec<Sol> {
    let mut sols = vec![Sol::new()];
    for t in ts {
        let mut next = vec![];
        for s in &sols {
            for tr in graph {
                let mut m = s.clone();
                if match_pt(&t[0], &tr[0], &mut m) && match_pt(&t[1], &tr[1], &mut m) && match_pt(&t[2], &tr[2], &mut m) {
                    next.push(m);
                }
            }
        }
        sols = next;
    }
    sols
}

fn arith_eval(a: &Arith, s: &Sol) -> Option<f64> {
    Some(match a {
        Arith::Var(v) => s.get(v)?.parse::<f64>().ok()?,
        Arith::Num(n) => *n as f64,
        Arith::Add(l, r) => arith_eval(l, s)? + arith_eval(r, s)?,
        Arith::Sub(l, r) => arith_eval(l, s)? - arith_eval(r, s)?,
        Arith::Mul(l, r) => arith_eval(l, s)? * arith_eval(r, s)?,
    })
}

/// None = error (unbound / non-numeric operand): outside the supported fragment.
fn filter_eval(f: &FExpr, s: &Sol) -> Option<bool> {
    Some(match f {
        FExpr::Cmp(v, op, r) => {
            let l = s.get(v)?;
            let rv = match r {
                PT::Var(x) => s.get(x)?.clone(),
                PT::C(c) => c.lex(),
            };
            match op {
                Op::Eq => *l == rv,
                Op::Ne => *l != rv,
                _ => op.num(l.parse::<f64>().ok()?, rv.parse::<f64>().ok()?),
            }
        }
        FExpr::ArithCmp(l, op, r) => op.num(arith_eval(l, s)?, arith_eval(r, s)?),
        FExpr::And(l, r) => filter_eval(l, s)? && filter_eval(r, s)?,
        FExpr::Or(l, r) => filter_eval(l, s)? || filter_eval(r, s)?,
        FExpr::Not(i) => !filter_eval(i, s)?,
    })
}

pub fn eval_group(elems: &[Elem], ctx: &EvalCtx, active: &Active) -> Vec<Sol> {
    let mut cur = vec![Sol::new()];
    let mut filters = vec![];
    for e in elems {
        match e {
            Elem::Filter(f) => filters.push(f),
            Elem::Bind(args, out) => {
                for s in cur.iter_mut() {
                    let mut v = String::new();
                    for a in args {
                        match a {
                            BArg::Str(x) => v.push_str(x),
                            BArg::Var(x) => match s.get(x) {
                                Some(val) => v.push_str(val),
                                None => ctx.out_of_fragment.set(ctx.out_of_fragment.get() + 1),
                            },
                        }
                    }
                    if s.contains_key(out) {
                        ctx.out_of_fragment.set(ctx.out_of_fragment.get() + 1);
                    }
                    s.insert(out.clone(), v);
                }
            }
            other => {
                let r = eval_elem(other, ctx, active);
                cur = join(&cur, &r);
            }
        }
    }
    for f in filters {
        cur.retain(|s| match filter_eval(f, s) {
            Some(b) => b,
            None => {
                ctx.out_of_fragment.set(ctx.out_of_fragment.get() + 1);
                false
            }
        });
    }
    cur
}

fn eval_elem(e: &Elem, ctx: &EvalCtx, active: &Active) -> Vec<Sol> {
    match e {
        Elem::Bgp(ts) => {
            static EMPTY: BTreeSet<[String; 3]> = BTreeSet::new();
            let g = match active {
                Active::Default => &ctx.default,
                Active::Named(n) => ctx.data.named.get(n).unwrap_or(&EMPTY),
            };
            eval_bgp(ts, g)
        }
        Elem::Group(g) => eval_group(g, ctx, active),
        Elem::Union(bs) => {
            let mut out = vec![];
            for b in bs {
                out.extend(eval_group(b, ctx, active));
            }
            out
        }
        Elem::Graph(GName::Iri(g), inner) => {
            if ctx.visible.contains(g) {
                eval_group(inner, ctx, &Active::Named(g.clone()))
            } else {
                vec![]
            }
        }
        Elem::Graph(GName::Var(v), inner) => {
            let mut out = vec![];
            for g in &ctx.visible {
                let r = eval_group(inner, ctx, &Active::Named(g.clone()));
                let mut b = Sol::new();
                b.insert(v.clone(), g.clone());
                out.extend(join(&r, &[b]));
            }
            out
        }
        Elem::Values(vars, rows) => rows
            .iter()
            .map(|r| {
                let mut s = Sol::new();
                for (v, c) in vars.iter().zip(r.iter()) {
                    if let Some(t) = c {
                        s.insert(v.clone(), t.lex());
                    }
                }
                s
            })
            .collect(),
        Elem::Sub(q) => {
            let rows = eval_select_rows(q, ctx, active);
            let cols = q.columns();
            rows.into_iter()
                .map(|r| {
                    let mut s = Sol::new();
                    for (c, v) in cols.iter().zip(r.into_iter()) {
                        if let Some(v) = v {
                            s.insert(c.clone(), v);
                        }
                    }
                    s
                })
                .collect()
        }
        Elem::Filter(_) | Elem::Bind(..) => unreachable!("handled by eval_group"),
    }
}

#[derive(Clone, Copy, PartialEq, Eq, Debug)]
pub enum Kind {
    Unbound,
    Num,
    Iri,
    Str,
}

pub fn kind_of(v: &str) -> Kind {
    if v.is_empty() {
        Kind::Unbound
    } else if v.parse::<f64>().is_ok() {
        Kind::Num
    } else if v.starts_with("http://") || v.starts_with("urn:") {
        Kind::Iri
    } else {
        Kind::Str
    }
}

/// Comparison SPARQL fixes: unbound lowest; numbers numerically; same-kind strings/IRIs by codepoint.
/// None when the two values are of unrelated kinds (order left open).
pub fn cmp_vals(a: &str, b: &str) -> Option<std::cmp::Ordering> {
    use std::cmp::Ordering::*;
    let (ka, kb) = (kind_of(a), kind_of(b));
    match (ka, kb) {
        (Kind::Unbound, Kind::Unbound) => Some(Equal),
        (Kind::Unbound, _) => Some(Less),
        (_, Kind::Unbound) => Some(Greater),
        (Kind::Num, Kind::Num) => a.parse::<f64>().unwrap().partial_cmp(&b.parse::<f64>().unwrap()),
        (x, y) if x == y => Some(a.cmp(b)),
        _ => None,
    }
}

/// Compare two rows on the ORDER BY keys. None if undetermined by SPARQL at the first differing key.
pub fn cmp_rows(a: &[Option<String>], b: &[Option<String>], keys: &[(usize, bool)]) -> Option<std::cmp::Ordering> {
    for (i, desc) in keys {
        let x = a[*i].as_deref().unwrap_or("");
        let y = b[*i].as_deref().unwrap_or("");
        let c = cmp_vals(x, y)?;
        let c = if *desc { c.reverse() } else { c };
        if c != std::cmp::Ordering::Equal {
            return Some(c);
        }
    }
    Some(std::cmp::Ordering::Equal)
}

/// A total order that refines `cmp_rows` (kinds ranked unbound < number < IRI < string where SPARQL leaves
/// the order open); only used to lay out the reference answer, never to judge the engine.
fn total_cmp_rows(a: &[Option<String>], b: &[Option<String>], keys: &[(usize, bool)]) -> std::cmp::Ordering {
    fn rank(k: Kind) -> u8 {
        match k {
            Kind::Unbound => 0,
            Kind::Num => 1,
            Kind::Iri => 2,
            Kind::Str => 3,
        }
    }
    for (i, desc) in keys {
        let x = a[*i].as_deref().unwrap_or("");
        let y = b[*i].as_deref().unwrap_or("");
        let c = match cmp_vals(x, y) {
            Some(c) => c,
            None => rank(kind_of(x)).cmp(&rank(kind_of(y))),
        };
        let c = if *desc { c.reverse() } else { c };
        if c != std::cmp::Ordering::Equal {
            return c;
        }
    }
    std::cmp::Ordering::Equal
}

fn fmt_num(v: f64) -> String {
    // canonical numeric rendering used on both sides of the comparison
    let r = (v * 1e6).round() / 1e6;
    if r == r.trunc() && r.abs() < 1e15 {
        format!("{}", r as i64)
    } else {
        format!("{}", r)
    }
}

pub fn canon_num(s: &str) -> String {
    match s.parse::<f64>() {
        Ok(v) => fmt_num(v),
        Err(_) => s.to_string(),
    }
}

/// Full (un-LIMITed) answer of a select as rows over `q.columns()`, in an order that satisfies
/// ORDER BY where SPARQL determines it. For nested selects the LIMIT is applied; if the cut is not
/// determined (ties / no ORDER BY) the context's `ambiguous` counter is raised.
pub fn eval_select_full(q: &Select, ctx: &EvalCtx, active: &Active) -> Vec<Vec<Option<String>>> {
    let (rows, visible, _) = eval_select_ext(q, ctx, active);
    rows.into_iter().map(|mut r| { r.truncate(visible); r }).collect()
}

/// As `eval_select_full`, but the rows carry, after the `visible` projected columns, the ORDER BY keys that the
/// select does not project (ORDER BY applies before projection; only generated for nested non-aggregate, non-DISTINCT
/// selects). Returns (rows, visible, key positions with direction).
pub fn eval_select_ext(q: &Select, ctx: &EvalCtx, active: &Active) -> (Vec<Vec<Option<String>>>, usize, Vec<(usize, bool)>) {
    let sols = eval_group(&q.body, ctx, active);
    let visible_cols = q.columns();
    let visible = visible_cols.len();
    let aggregating = q.has_agg() || !q.group_by.is_empty();
    let mut cols = visible_cols.clone();
    if !aggregating && !q.distinct {
        for (v, _) in &q.order {
            if !cols.contains(v) {
                cols.push(v.clone());
            }
        }
    }
    let mut rows: Vec<Vec<Option<String>>> = if aggregating {
        let mut groups: BTreeMap<Vec<Option<String>>, Vec<Sol>> = BTreeMap::new();
        for s in sols {
            let key: Vec<Option<String>> = q.group_by.iter().map(|v| s.get(v).cloned()).collect();
            groups.entry(key).or_default().push(s);
        }
        if groups.is_empty() && q.group_by.is_empty() {
            groups.insert(vec![], vec![]);
        }
        let items = match &q.proj {
            Proj::Items(i) => i.clone(),
            Proj::Star => vec![],
        };
        groups
            .into_iter()
            .map(|(key, members)| {
                items
                    .iter()
                    .map(|it| match it {
                        ProjItem::Var(v) => match q.group_by.iter().position(|g| g == v) {
                            Some(i) => key[i].clone(),
                            None => {
                                // projecting a non-grouped variable is outside the fragment (restriction d)
                                ctx.out_of_fragment.set(ctx.out_of_fragment.get() + 1);
                                None
                            }
                        },
                        ProjItem::Agg(k, v, _) => {
                            let mut nums = vec![];
                            for m in &members {
                                match m.get(v).and_then(|x| x.parse::<f64>().ok()) {
                                    Some(n) => nums.push(n),
                                    None => ctx.out_of_fragment.set(ctx.out_of_fragment.get() + 1),
                                }
                            }
                            // A non-integer aggregate value that flows out of a nested select would be joined, grouped,
                            // compared or aggregated again by its full-precision rendering, which depends on the order of
                            // the floating-point summation: such cases are not judged. (At top level both sides are put
                            // into one canonical rendering before they are compared.)
                            if ctx.nested.get() > 0 && matches!(k, AggKind::Avg | AggKind::Sum) && !nums.is_empty() {
                                let v = if *k == AggKind::Avg { nums.iter().sum::<f64>() / nums.len() as f64 } else { nums.iter().sum::<f64>() };
                                if v != v.trunc() {
                                    ctx.ambiguous.set(ctx.ambiguous.get() + 1);
                                }
                            }
                            match k {
                                AggKind::Sum => Some(fmt_num(nums.iter().sum())),
                                AggKind::Avg | AggKind::Min | AggKind::Max if nums.is_empty() => {
                                    // value over an empty group: SPARQL and the engine's documentation do not agree on a rendering
                                    ctx.ambiguous.set(ctx.ambiguous.get() + 1);
                                    None
                                }
                                AggKind::Avg => Some(fmt_num(nums.iter().sum::<f64>() / nums.len() as f64)),
                                AggKind::Min => Some(fmt_num(nums.iter().cloned().fold(f64::INFINITY, f64::min))),
                                AggKind::Max => Some(fmt_num(nums.iter().cloned().fold(f64::NEG_INFINITY, f64::max))),
                            }
                        }
                    })
                    .collect()
            })
            .collect()
    } else {
        sols.iter().map(|s| cols.iter().map(|c| s.get(c).cloned()).collect()).collect()
    };
    // ORDER BY (keys are projected columns, or hidden key columns appended above)
    let keys: Vec<(usize, bool)> = q.order.iter().filter_map(|(v, d)| cols.iter().position(|c| c == v).map(|i| (i, *d))).collect();
    if keys.len() != q.order.len() {
        ctx.out_of_fragment.set(ctx.out_of_fragment.get() + 1);
    }
    if !keys.is_empty() {
        // stable sort with undetermined pairs treated as equal (callers check determinacy separately)
        rows.sort_by(|a, b| total_cmp_rows(a, b, &keys));
    }
    if q.distinct {
        let mut seen = BTreeSet::new();
        rows.retain(|r| seen.insert(r.clone()));
    }
    (rows, visible, keys)
}

/// Rows of a nested select (LIMIT applied). Raises `ambiguous` when the cut is not determined.
fn eval_select_rows(q: &Select, ctx: &EvalCtx, active: &Active) -> Vec<Vec<Option<String>>> {
    ctx.nested.set(ctx.nested.get() + 1);
    let (mut rows, visible, keys) = eval_select_ext(q, ctx, active);
    ctx.nested.set(ctx.nested.get() - 1);
    if let Some(l) = q.limit {
        if l < rows.len() {
            if l > 0 && !cut_is_determined(&rows, l, q, &keys, visible) {
                ctx.ambiguous.set(ctx.ambiguous.get() + 1);
            }
            rows.truncate(l);
        }
    }
    rows.into_iter().map(|mut r| { r.truncate(visible); r }).collect()
}

/// A LIMIT cut at position l (0 < l < len) of an ordered row list is determined iff every pair of
/// rows is ordered by the keys wherever they differ (a total, fully determined order) around the cut.
fn cut_is_determined(rows: &[Vec<Option<String>>], l: usize, q: &Select, keys: &[(usize, bool)], visible: usize) -> bool {
    if q.order.is_empty() {
        // without ORDER BY any l rows are legal; determined only if all rows are identical
        return rows.iter().all(|r| r[..visible] == rows[0][..visible]);
    }
    // every kept row must be strictly before every dropped row, or show the same projected row
    for a in &rows[..l] {
        for b in &rows[l..] {
            match cmp_rows(a, b, keys) {
                Some(std::cmp::Ordering::Less) => {}
                Some(std::cmp::Ordering::Equal) if a[..visible] == b[..visible] => {}
                _ => return false,
            }
        }
    }
    // and the order among all rows must be determined (no unrelated kinds)
    for i in 0..rows.len() {
        for j in i + 1..rows.len() {
            if cmp_rows(&rows[i], &rows[j], keys).is_none() {
                return false;
            }
        }
    }
    true
}

// ------------------------------------------------------------------------------------------
// loading a DataSet into the engine through the public API
// ------------------------------------------------------------------------------------------

pub fn load_into(db: &mut kolibrie::sparql_database::SparqlDatabase, d: &DataSet) {
    use shared::dataset_index::GraphId;
    for t in &d.default {
        db.add_triple_parts(&t[0].lex(), &t[1].lex(), &t[2].lex());
    }
    for (g, ts) in &d.named {
        let gid = db.dictionary.write().unwrap().encode(g);
        db.dataset_index.create_graph(GraphId::Named(gid));
        for t in ts {
            db.add_quad_parts(&t[0].lex(), &t[1].lex(), &t[2].lex(), g);
        }
    }
}

/// Lexical snapshot of the engine's dataset (quads + named graph catalog).
pub fn snapshot(db: &kolibrie::sparql_database::SparqlDatabase) -> LexData {
    use shared::dataset_index::GraphId;
    let mut l = LexData::default();
    let dec = |id: u32| db.decode_any(id).unwrap_or_else(|| format!("<undecodable:{id}>"));
    for g in db.dataset_index.named_graphs() {
        if let GraphId::Named(id) = g {
            l.named.entry(dec(id)).or_default();
        }
    }
    for q in db.dataset_index.all_quads() {
        let t = [dec(q.subject), dec(q.predicate), dec(q.object)];
        match q.graph {
            GraphId::Default => {
                l.default.insert(t);
            }
            GraphId::Named(id) => {
                l.named.entry(dec(id)).or_default().insert(t);
            }
        }
    }
    l
}

// ------------------------------------------------------------------------------------------
// generators
// ------------------------------------------------------------------------------------------

pub const N_SUBJ: usize = 5;
pub const VARS: [&str; 6] = ["a", "b", "c", "d", "f", "h"];
pub const GRAPHS: [&str; 5] = ["http://e/g0", "http://e/g1", "http://e/g2", "http://e/gE", "http://e/gN"];

/// Subject names: `s1` is a prefix of `s12`, and together with the numeric values 3 / 23 two different
/// (subject, value) tuples have the same concatenation — keys built by gluing values together show up as wrong answers.
pub fn subj_name(i: usize) -> &'static str {
    ["s0", "s1", "s2", "s3", "s12"][i % N_SUBJ]
}
fn subj(i: usize) -> Tm {
    Tm::Iri(format!("{NS}{}", subj_name(i)))
}

#[derive(Clone, Copy, Debug, PartialEq)]
pub enum PredKind {
    Rel(usize),
    Val,
    Tag,
    Type,
}

pub fn pred_kind(i: usize) -> PredKind {
    match i % 7 {
        0 | 1 | 2 => PredKind::Rel(i % 7),
        3 | 4 => PredKind::Val,
        5 => PredKind::Tag,
        _ => PredKind::Type,
    }
}

pub fn pred_tm(k: PredKind) -> Tm {
    match k {
        PredKind::Rel(i) => Tm::Iri(format!("{NS}p{i}")),
        PredKind::Val => Tm::Iri(format!("{NS}val")),
        PredKind::Tag => Tm::Iri(format!("{NS}tag")),
        PredKind::Type => Tm::Iri(RDF_TYPE.to_string()),
    }
}

pub fn obj_for(k: PredKind, sel: usize) -> Tm {
    match k {
        PredKind::Rel(_) => match sel % 9 {
            x @ 0..=4 => subj(x),
            5 => Tm::Iri(format!("{NS}o0")),
            6 => Tm::Iri(format!("{NS}o1")),
            7 => Tm::Lit("x".into()),
            _ => Tm::Lit("y z".into()),
        },
        PredKind::Val => Tm::Num([0, 1, 2, 3, 23, 5, 6][sel % 7]),
        PredKind::Tag => Tm::Lit(["red", "green", "blue", "1k", "red", "10", "green"][sel % 7].to_string()),
        PredKind::Type => Tm::Iri(format!("{NS}C{}", sel % 2)),
    }
}

pub fn data_triple() -> impl Strategy<Value = Triple3> {
    // one triple in eight is ABOUT a named graph (its subject is a graph IRI, possibly stored in another graph): a
    // `GRAPH ?g { ... ?g ... }` block that uses its graph variable as a term has answers only over such data
    (0usize..N_SUBJ + 1, 0usize..7, 0usize..63, 0usize..3).prop_map(|(s, p, o, g)| {
        let k = pred_kind(p);
        // ... and one in eighteen has a scheme-less IRI (`<rel0>`, `<rel1>`) as subject
        let subject = if s == N_SUBJ && g < 3 && o % 3 != 0 {
            Tm::Iri(GRAPHS[g].to_string())
        } else if s == N_SUBJ {
            Tm::Iri(format!("rel{}", g % 2))
        } else {
            subj(s)
        };
        [subject, pred_tm(k), obj_for(k, o)]
    })
}

/// Dataset strategy: default graph + 0–3 named graphs (+ optionally an empty catalogued graph),
/// the same triple deliberately placed in several graphs.
pub fn dataset_strategy(max_default: usize, max_named: usize) -> impl Strategy<Value = DataSet> {
    (
        proptest::collection::vec(data_triple(), 0..=max_default),
        proptest::collection::vec((0usize..3, proptest::collection::vec(data_triple(), 0..=max_named), proptest::collection::vec(any::<u16>(), 0..4)), 0..=3),
        any::<bool>(),
    )
        .prop_map(|(default, named_raw, empty_graph)| {
            let mut named: Vec<(String, Vec<Triple3>)> = vec![];
            for (gi, mut ts, copies) in named_raw {
                // copy some default-graph triples into this graph (duplicate triples across graphs)
                for c in copies {
                    if !default.is_empty() {
                        ts.push(default[pick_idx(c, default.len())].clone());
                    }
                }
                let g = GRAPHS[gi].to_string();
                if let Some(e) = named.iter_mut().find(|(n, _)| *n == g) {
                    e.1.extend(ts);
                } else {
                    named.push((g, ts));
                }
            }
            if empty_graph {
                named.push((GRAPHS[3].to_string(), vec![]));
            }
            DataSet { default, named }
        })
}

// ---- raw (seed) query trees, resolved by `build` ----

#[derive(Clone, Debug)]
pub struct RawTerm {
    pub var: bool,
    pub v: u16,
    pub c: u16,
}

#[derive(Clone, Debug)]
pub struct FSeed {
    pub shape: u8,
    pub a: u16,
    pub b: u16,
    pub c: u16,
    pub op: u8,
}

#[derive(Clone, Debug)]
pub struct RawTriple {
    /// derive the pattern from a triple of the dataset (lifting constants to variables consistently)
    pub from_data: bool,
    pub sel: u16,
    /// 0 = free, 1 = star (subject of the previous pattern), 2 = chain (subject = previous object)
    pub chain: u8,
    pub t: [RawTerm; 3],
}

#[derive(Clone, Debug)]
pub enum RawElem {
    Bgp(Vec<RawTriple>),
    Group(Vec<RawElem>),
    Union(Vec<Vec<RawElem>>),
    Graph(bool, u16, Vec<RawElem>), // is_var, selector, body
    Filter(FSeed),
    Bind(u16, u16, u8),
    Values(u8, Vec<Vec<(bool, u16)>>, u16),
    Sub(Box<RawSelect>),
}

#[derive(Clone, Debug)]
pub struct RawSelect {
    pub body: Vec<RawElem>,
    pub distinct: bool,
    pub proj_mode: u8, // 0 star, 1.. subset, high = aggregate
    pub proj_sel: Vec<u16>,
    pub agg: Vec<(u8, u16)>,
    pub order: Vec<(u16, bool)>,
    pub limit: Option<u8>,
    pub from: Vec<u8>,
    pub from_named: Vec<u8>,
}

fn raw_term(var_weight: u32) -> impl Strategy<Value = RawTerm> {
    (0u32..100, any::<u16>(), any::<u16>()).prop_map(move |(w, v, c)| RawTerm { var: w < var_weight, v, c })
}

fn raw_triple() -> impl Strategy<Value = RawTriple> {
    (proptest::bool::weighted(0.88), any::<u16>(), 0u8..10, raw_term(70), raw_term(15), raw_term(60)).prop_map(|(from_data, sel, c, s, p, o)| RawTriple {
        from_data,
        sel,
        chain: match c {
            0..=4 => 0,
            5..=7 => 1,
            _ => 2,
        },
        t: [s, p, o],
    })
}

fn raw_bgp(max: usize) -> impl Strategy<Value = Vec<RawTriple>> {
    // small BGPs dominate: 1 (40%), 2 (35%), 3 (25%)
    (0u8..20, proptest::collection::vec(raw_triple(), max)).prop_map(move |(w, mut v)| {
        let n = if max > 3 {
            // join-heavy configuration (C02): 2..=max patterns
            2 + (w as usize * (max - 1)) / 20
        } else if w < 8 {
            1
        } else if w < 15 {
            2
        } else {
            3
        };
        v.truncate(n.min(max).max(1));
        v
    })
}

fn fseed() -> impl Strategy<Value = FSeed> {
    (0u8..12, any::<u16>(), any::<u16>(), any::<u16>(), 0u8..6).prop_map(|(shape, a, b, c, op)| FSeed { shape, a, b, c, op })
}

fn raw_leaf(bgp_max: usize) -> impl Strategy<Value = RawElem> {
    prop_oneof![
        6 => raw_bgp(bgp_max).prop_map(RawElem::Bgp),
        2 => fseed().prop_map(RawElem::Filter),
        1 => (any::<u16>(), any::<u16>(), 0u8..4).prop_map(|(a, b, k)| RawElem::Bind(a, b, k)),
        1 => (1u8..=2, proptest::collection::vec(proptest::collection::vec((proptest::bool::weighted(0.25), any::<u16>()), 2), 1..=3), any::<u16>())
            .prop_map(|(n, rows, s)| RawElem::Values(n, rows, s)),
    ]
}

pub fn raw_elems(depth: u32, allow_sub: bool) -> BoxedStrategy<Vec<RawElem>> {
    raw_elems_cfg(depth, allow_sub, 3)
}

pub fn raw_elems_cfg(depth: u32, allow_sub: bool, bgp_max: usize) -> BoxedStrategy<Vec<RawElem>> {
    let leaf = raw_leaf(bgp_max);
    if depth == 0 {
        return proptest::collection::vec(leaf, 1..=3).boxed();
    }
    let inner = raw_elems_cfg(depth - 1, allow_sub, bgp_max);
    let inner2 = raw_elems_cfg(depth - 1, allow_sub, bgp_max);
    let inner3 = raw_elems_cfg(depth - 1, allow_sub, bgp_max);
    let sub: BoxedStrategy<RawElem> = if allow_sub {
        raw_select_cfg(depth - 1, false, bgp_max).prop_map(|s| RawElem::Sub(Box::new(s))).boxed()
    } else {
        raw_bgp(2).prop_map(RawElem::Bgp).boxed()
    };
    let node = prop_oneof![
        5 => raw_leaf(bgp_max),
        2 => proptest::collection::vec(inner.clone(), 2..=3).prop_map(RawElem::Union),
        2 => (any::<bool>(), any::<u16>(), inner2).prop_map(|(v, s, b)| RawElem::Graph(v, s, b)),
        1 => inner3.prop_map(RawElem::Group),
        1 => sub,
    ];
    proptest::collection::vec(node, 1..=3).boxed()
}

pub fn raw_select(depth: u32, top: bool) -> BoxedStrategy<RawSelect> {
    raw_select_cfg(depth, top, 3)
}

pub fn raw_select_cfg(depth: u32, top: bool, bgp_max: usize) -> BoxedStrategy<RawSelect> {
    (
        raw_elems_cfg(depth, true, bgp_max),
        proptest::bool::weighted(0.25),
        0u8..10,
        proptest::collection::vec(any::<u16>(), 1..=3),
        proptest::collection::vec((0u8..4, any::<u16>()), 1..=2),
        proptest::collection::vec((any::<u16>(), any::<bool>()), 0..=2),
        proptest::option::weighted(0.3, 0u8..6),
        proptest::collection::vec(0u8..5, 0..=2),
        proptest::collection::vec(0u8..5, 0..=2),
        (proptest::bool::weighted(0.2), proptest::bool::weighted(0.3)),
    )
        .prop_map(move |(body, distinct, proj_mode, proj_sel, agg, order, limit, from, from_named, (use_from, use_order))| RawSelect {
            body,
            distinct,
            proj_mode,
            proj_sel,
            agg,
            order: if use_order { order } else { vec![] },
            limit,
            from: if top && use_from { from } else { vec![] },
            from_named: if top && use_from { from_named } else { vec![] },
        })
        .boxed()
}

// ---- variable-set analysis (which variables are certainly bound / certainly numeric) ----

#[derive(Clone, Debug, Default)]
pub struct VarInfo {
    pub certain: BTreeSet<String>,
    pub numeric: BTreeSet<String>,
    pub all: BTreeSet<String>,
}

fn info_elems(elems: &[Elem]) -> VarInfo {
    let mut vi = VarInfo::default();
    for e in elems {
        let x = info_elem(e);
        vi.certain.extend(x.certain);
        vi.numeric.extend(x.numeric);
        vi.all.extend(x.all);
    }
    vi
}

fn is_val_pred(p: &PT) -> bool {
    matches!(p, PT::C(Tm::Iri(i)) if i == &format!("{NS}val"))
}

fn info_elem(e: &Elem) -> VarInfo {
    let mut vi = VarInfo::default();
    match e {
        Elem::Bgp(ts) => {
            for t in ts {
                for (i, x) in t.iter().enumerate() {
                    if let PT::Var(v) = x {
                        vi.certain.insert(v.clone());
                        vi.all.insert(v.clone());
                        if i == 2 && is_val_pred(&t[1]) {
                            vi.numeric.insert(v.clone());
                        }
                    }
                }
            }
        }
        Elem::Group(g) => vi = info_elems(g),
        Elem::Union(bs) => {
            let infos: Vec<VarInfo> = bs.iter().map(|b| info_elems(b)).collect();
            vi.certain = infos[0].certain.clone();
            vi.numeric = infos[0].numeric.clone();
            for i in &infos {
                vi.certain = vi.certain.intersection(&i.certain).cloned().collect();
                vi.numeric = vi.numeric.intersection(&i.numeric).cloned().collect();
                vi.all.extend(i.all.iter().cloned());
            }
        }
        Elem::Graph(n, g) => {
            vi = info_elems(g);
            if let GName::Var(v) = n {
                vi.certain.insert(v.clone());
                vi.all.insert(v.clone());
                vi.numeric.remove(v);
            }
        }
        Elem::Filter(_) => {}
        Elem::Bind(_, out) => {
            vi.certain.insert(out.clone());
            vi.all.insert(out.clone());
        }
        Elem::Values(vars, rows) => {
            for (i, v) in vars.iter().enumerate() {
                vi.all.insert(v.clone());
                if rows.iter().all(|r| r[i].is_some()) && !rows.is_empty() {
                    vi.certain.insert(v.clone());
                    if rows.iter().all(|r| matches!(r[i], Some(Tm::Num(_)))) {
                        vi.numeric.insert(v.clone());
                    }
                }
            }
        }
        Elem::Sub(q) => {
            let inner = info_elems(&q.body);
            match &q.proj {
                Proj::Star => vi = inner,
                Proj::Items(items) => {
                    for it in items {
                        match it {
                            ProjItem::Var(v) => {
                                vi.all.insert(v.clone());
                                if inner.certain.contains(v) {
                                    vi.certain.insert(v.clone());
                                }
                                if inner.numeric.contains(v) {
                                    vi.numeric.insert(v.clone());
                                }
                            }
                            ProjItem::Agg(k, _, a) => {
                                vi.all.insert(a.clone());
                                if !q.group_by.is_empty() || *k == AggKind::Sum {
                                    vi.certain.insert(a.clone());
                                    vi.numeric.insert(a.clone());
                                }
                            }
                        }
                    }
                }
            }
        }
    }
    // a variable numeric on one binding site is numeric wherever it is certainly bound by that site;
    // keep numeric ⊆ certain
    vi.numeric = vi.numeric.intersection(&vi.certain).cloned().collect();
    vi
}

// ---- resolving raw trees into concrete queries inside the supported fragment ----

pub struct Builder<'d> {
    fresh: u32,
    data: &'d DataSet,
    consts: Vec<Tm>,
    /// injective constant -> variable assignment used when lifting data triples into patterns, so that
    /// the data itself is a witness for all data-derived patterns of one query
    lift_map: std::cell::RefCell<BTreeMap<Tm, String>>,
}

impl<'d> Builder<'d> {
    pub fn new(data: &'d DataSet) -> Self {
        let mut consts: BTreeSet<Tm> = BTreeSet::new();
        for t in data.default.iter().chain(data.named.iter().flat_map(|(_, ts)| ts.iter())) {
            consts.insert(t[0].clone());
            consts.insert(t[2].clone());
        }
        Builder { fresh: 0, data, consts: consts.into_iter().collect(), lift_map: Default::default() }
    }
    pub fn data_ref(&self) -> &'d DataSet {
        self.data
    }
    /// consistent constant -> variable lifting (different constants may share a variable)
    fn lift(&self, c: &Tm, salt: u16) -> Option<String> {
        let mut m = self.lift_map.borrow_mut();
        if let Some(v) = m.get(c) {
            return Some(v.clone());
        }
        if m.len() >= VARS.len() {
            // out of variables: one time in four reuse a variable (may make the pattern unsatisfiable), else keep the constant
            if salt % 4 == 0 {
                let i = self.consts.iter().position(|x| x == c).unwrap_or(0);
                return Some(VARS[i % VARS.len()].to_string());
            }
            return None;
        }
        let v = VARS[(m.len() + salt as usize % 2) % VARS.len()].to_string();
        let v = if m.values().any(|x| *x == v) { VARS.iter().map(|x| x.to_string()).find(|x| !m.values().any(|y| y == x)).unwrap() } else { v };
        m.insert(c.clone(), v.clone());
        Some(v)
    }
    fn graph_triples(&self, scope: &Scope) -> Vec<&'d Triple3> {
        match scope {
            Scope::Default => self.data.default.iter().collect(),
            Scope::Named(g) => self.data.named.iter().filter(|(n, _)| n == g).flat_map(|(_, ts)| ts.iter()).collect(),
            Scope::AnyNamed => self.data.named.iter().flat_map(|(_, ts)| ts.iter()).collect(),
        }
    }
    fn fresh_var(&mut self) -> String {
        self.fresh += 1;
        format!("z{}", self.fresh)
    }

    fn term(&self, r: &RawTerm, pos: usize, pk: PredKind) -> PT {
        if r.var {
            return PT::Var(VARS[pick_idx(r.v, VARS.len())].to_string());
        }
        match pos {
            0 => PT::C(subj(pick_idx(r.c, N_SUBJ))),
            1 => PT::C(pred_tm(pk)),
            _ => PT::C(obj_for(pk, pick_idx(r.c, 63))),
        }
    }

    fn bgp(&self, ts: &[RawTriple], scope: &Scope) -> Vec<[PT; 3]> {
        let pool = self.graph_triples(scope);
        let salt = ts.first().map(|t| t.sel).unwrap_or(0);
        let mut prev: Option<[PT; 3]> = None;
        ts.iter()
            .map(|rt| {
                let t = &rt.t;
                let pk = pred_kind(pick_idx(t[1].c, 7));
                let mut tr = if rt.from_data && !pool.is_empty() {
                    let d = pool[pick_idx(rt.sel, pool.len())];
                    let lift_or_keep = |i: usize| -> PT {
                        if t[i].var {
                            if i == 1 {
                                PT::Var(VARS[pick_idx(t[i].v, VARS.len())].to_string())
                            } else {
                                match self.lift(&d[i], salt) {
                                    Some(v) => PT::Var(v),
                                    None => PT::C(d[i].clone()),
                                }
                            }
                        } else {
                            PT::C(d[i].clone())
                        }
                    };
                    [lift_or_keep(0), lift_or_keep(1), lift_or_keep(2)]
                } else {
                    [self.term(&t[0], 0, pk), self.term(&t[1], 1, pk), self.term(&t[2], 2, pk)]
                };
                // a variable that is the object of ex:val must not double as a subject/predicate inside
                // the same triple (keeps "numeric" analysis simple); rename on conflict
                let same = matches!((&tr[0], &tr[2]), (PT::Var(a), PT::Var(b)) if a == b);
                if same && is_val_pred(&tr[1]) {
                    let a_is_h = matches!(&tr[0], PT::Var(a) if a == "h");
                    tr[2] = PT::Var(if a_is_h { "f" } else { "h" }.to_string());
                }
                if let Some(p) = &prev {
                    match rt.chain {
                        1 => tr[0] = p[0].clone(),
                        2 if !matches!(&p[2], PT::C(Tm::Lit(_)) | PT::C(Tm::Num(_))) && !is_val_pred(&p[1]) => tr[0] = p[2].clone(),
                        _ => {}
                    }
                    if matches!((&tr[0], &tr[2]), (PT::Var(a), PT::Var(b)) if a == b) && is_val_pred(&tr[1]) {
                        tr[2] = PT::Var("h".to_string());
                        if matches!(&tr[0], PT::Var(a) if a == "h") {
                            tr[2] = PT::Var("f".to_string());
                        }
                    }
                }
                prev = Some(tr.clone());
                tr
            })
            .collect()
    }

    fn filter(&self, s: &FSeed, vi: &VarInfo) -> Option<FExpr> {
        let certain: Vec<&String> = vi.certain.iter().collect();
        let numeric: Vec<&String> = vi.numeric.iter().collect();
        let op_any = [Op::Eq, Op::Ne, Op::Lt, Op::Le, Op::Gt, Op::Ge][s.op as usize % 6];
        let op_eq = if s.op % 2 == 0 { Op::Eq } else { Op::Ne };
        let atom = |a: u16, b: u16, c: u16, shape: u8| -> Option<FExpr> {
            match shape % 6 {
                0 | 1 if !numeric.is_empty() => {
                    let v = numeric[pick_idx(a, numeric.len())].clone();
                    Some(FExpr::Cmp(v, op_any, PT::C(Tm::Num((b % 7) as i64))))
                }
                2 if numeric.len() >= 2 => {
                    let v = numeric[pick_idx(a, numeric.len())].clone();
                    let w = numeric[pick_idx(b, numeric.len())].clone();
                    Some(FExpr::Cmp(v, op_any, PT::Var(w)))
                }
                3 if !numeric.is_empty() => {
                    let v = numeric[pick_idx(a, numeric.len())].clone();
                    let w = numeric[pick_idx(c, numeric.len())].clone();
                    let l = match b % 3 {
                        0 => Arith::Add(Box::new(Arith::Var(v)), Box::new(Arith::Num((b % 4) as i64))),
                        1 => Arith::Mul(Box::new(Arith::Var(v)), Box::new(Arith::Num(2))),
                        _ => Arith::Sub(Box::new(Arith::Var(v)), Box::new(Arith::Num(1))),
                    };
                    let r = if c % 2 == 0 { Arith::Var(w) } else { Arith::Num((c % 8) as i64) };
                    Some(FExpr::ArithCmp(l, op_any, r))
                }
                4 if certain.len() >= 2 => {
                    let v = certain[pick_idx(a, certain.len())].clone();
                    let w = certain[pick_idx(b, certain.len())].clone();
                    Some(FExpr::Cmp(v, op_eq, PT::Var(w)))
                }
                _ if !certain.is_empty() => {
                    let v = certain[pick_idx(a, certain.len())].clone();
                    let k = pred_kind(b as usize);
                    let c = match c % 4 {
                        0 => subj(b as usize),
                        1 => Tm::Iri(GRAPHS[b as usize % 3].to_string()),
                        _ => obj_for(k, c as usize),
                    };
                    Some(FExpr::Cmp(v, op_eq, PT::C(c)))
                }
                _ => None,
            }
        };
        let first = atom(s.a, s.b, s.c, s.shape)?;
        match s.shape {
            8 => Some(FExpr::Not(Box::new(first))),
            9 => atom(s.c, s.a, s.b, s.shape / 2).map(|o| FExpr::And(Box::new(first.clone()), Box::new(o))).or(Some(first)),
            10 | 11 => atom(s.b, s.c, s.a, s.shape / 3).map(|o| FExpr::Or(Box::new(first.clone()), Box::new(o))).or(Some(first)),
            _ => Some(first),
        }
    }

    /// Resolve one group. `graph_var_inside`: variables that name an enclosing `GRAPH ?g` — a filter of
    /// an inner group must not mention them (they are not in scope of that group in the algebra).
    pub fn elems(&mut self, raw: &[RawElem], outer_graph_vars: &BTreeSet<String>, scope: &Scope) -> Vec<Elem> {
        // pass 1: everything except FILTER/BIND
        let mut slots: Vec<Option<Elem>> = Vec::with_capacity(raw.len());
        for r in raw {
            let e = match r {
                RawElem::Bgp(ts) => Some(Elem::Bgp(self.bgp(ts, scope))),
                RawElem::Group(g) => {
                    let inner = self.elems(g, outer_graph_vars, scope);
                    if inner.is_empty() {
                        None
                    } else {
                        Some(Elem::Group(inner))
                    }
                }
                RawElem::Union(bs) => {
                    let branches: Vec<Vec<Elem>> = bs.iter().map(|b| self.elems(b, outer_graph_vars, scope)).collect();
                    Some(Elem::Union(branches))
                }
                RawElem::Graph(is_var, sel, body) => {
                    let name = if *is_var {
                        GName::Var(["g", "a", "b"][pick_idx(*sel, 3)].to_string())
                    } else {
                        // mostly graphs that exist in the dataset, sometimes the empty / never-created ones
                        let existing: Vec<&String> = self.data.named.iter().map(|(g, _)| g).collect();
                        if *sel % 5 != 0 && !existing.is_empty() {
                            GName::Iri(existing[pick_idx(*sel, existing.len())].clone())
                        } else {
                            GName::Iri(GRAPHS[pick_idx(*sel, GRAPHS.len())].to_string())
                        }
                    };
                    let mut inner_outer = outer_graph_vars.clone();
                    if let GName::Var(v) = &name {
                        inner_outer.insert(v.clone());
                    }
                    let inner_scope = match &name {
                        GName::Var(_) => Scope::AnyNamed,
                        GName::Iri(g) => Scope::Named(g.clone()),
                    };
                    let inner = self.elems(body, &inner_outer, &inner_scope);
                    Some(Elem::Graph(name, inner))
                }
                RawElem::Values(n, rows, s) => {
                    let n = (*n as usize).clamp(1, 2);
                    let v0 = pick_idx(*s, VARS.len());
                    let mut vars = vec![VARS[v0].to_string()];
                    if n == 2 {
                        vars.push(VARS[(v0 + 1 + (*s as usize % (VARS.len() - 1))) % VARS.len()].to_string());
                        if vars[0] == vars[1] {
                            vars.pop();
                        }
                    }
                    let n = vars.len();
                    let lifted: Vec<Option<Tm>> = vars.iter().map(|v| self.lift_map.borrow().iter().find(|(_, x)| *x == v).map(|(c, _)| c.clone())).collect();
                    let rows: Vec<Vec<Option<Tm>>> = rows
                        .iter()
                        .enumerate()
                        .map(|(ri, r)| {
                            (0..n)
                                .map(|i| {
                                    let (undef, c) = r[i];
                                    if undef {
                                        None
                                    } else if ri == 0 && lifted[i].is_some() && c % 4 != 0 {
                                        // keep the witness assignment of data-derived patterns alive
                                        lifted[i].clone()
                                    } else {
                                        Some(match c % 5 {
                                            0 | 1 => subj(c as usize / 5),
                                            2 => Tm::Iri(GRAPHS[(c as usize / 5) % 4].to_string()),
                                            3 => Tm::Num(((c / 5) % 7) as i64),
                                            _ => obj_for(pred_kind(c as usize / 5), c as usize / 35),
                                        })
                                    }
                                })
                                .collect()
                        })
                        .collect();
                    // a data block may list the same row twice: VALUES is a multiset of solutions, so matching solutions double
                    let mut rows = rows;
                    if *s % 3 == 0 {
                        let again = rows[pick_idx(s.rotate_left(5), rows.len())].clone();
                        rows.push(again);
                    }
                    Some(Elem::Values(vars, rows))
                }
                RawElem::Sub(rs) => Some(Elem::Sub(Box::new(self.select_in(rs, false, scope)))),
                RawElem::Filter(_) | RawElem::Bind(..) => None,
            };
            slots.push(e);
        }
        // pass 2: BINDs (see only what precedes them), left to right
        let mut out: Vec<Elem> = vec![];
        let mut pending_filters: Vec<(usize, &FSeed)> = vec![];
        for (i, r) in raw.iter().enumerate() {
            match r {
                RawElem::Bind(a, b, k) => {
                    let vi = info_elems(&out);
                    let certain: Vec<String> = vi.certain.iter().filter(|v| !outer_graph_vars.contains(*v)).cloned().collect();
                    if certain.is_empty() {
                        continue;
                    }
                    let v1 = certain[pick_idx(*a, certain.len())].clone();
                    let v2 = certain[pick_idx(*b, certain.len())].clone();
                    let args = match k % 4 {
                        0 => vec![BArg::Var(v1), BArg::Str("-".into()), BArg::Var(v2)],
                        1 => vec![BArg::Var(v1), BArg::Str("k".into())],
                        2 => vec![BArg::Str("pre ".into()), BArg::Var(v1)],
                        _ => vec![BArg::Var(v1), BArg::Var(v2)],
                    };
                    let outv = self.fresh_var();
                    out.push(Elem::Bind(args, outv));
                }
                RawElem::Filter(s) => pending_filters.push((out.len(), s)),
                _ => {
                    if let Some(e) = slots[i].take() {
                        out.push(e);
                    }
                }
            }
        }
        // pass 3: FILTERs see the whole group; inserted at their lexical position (scope is the group)
        let mut vi = info_elems(&out);
        for g in outer_graph_vars {
            vi.certain.remove(g);
            vi.numeric.remove(g);
        }
        // variables certainly bound only *as seen from inside this group*: an enclosing GRAPH ?g variable
        // bound again inside (e.g. in a triple) is fine, but we stay conservative and exclude it.
        let mut inserted = 0;
        for (pos, s) in pending_filters {
            if let Some(f) = self.filter(s, &vi) {
                out.insert((pos + inserted).min(out.len()), Elem::Filter(f));
                inserted += 1;
            }
        }
        out
    }

    pub fn select(&mut self, r: &RawSelect, top: bool) -> Select {
        self.select_in(r, top, &Scope::Default)
    }

    pub fn select_in(&mut self, r: &RawSelect, top: bool, scope: &Scope) -> Select {
        let mut body = self.elems(&r.body, &BTreeSet::new(), scope);
        if body.is_empty() {
            body.push(Elem::Bgp(vec![[PT::Var("a".into()), PT::Var("b".into()), PT::Var("c".into())]]));
        }
        let vi = info_elems(&body);
        let mut all_cols = vec![];
        collect_vars_elems(&body, &mut all_cols);
        let numeric_certain: Vec<String> = vi.numeric.iter().cloned().collect();
        let mut group_by = vec![];
        let proj = if r.proj_mode >= 8 && !numeric_certain.is_empty() {
            // aggregate projection: GROUP BY 0–2 certainly-bound variables
            let mut items = vec![];
            let certain: Vec<String> = vi.certain.iter().cloned().collect();
            if r.proj_sel[0] % 3 != 0 && !certain.is_empty() {
                let g = certain[pick_idx(r.proj_sel[0], certain.len())].clone();
                group_by.push(g.clone());
                items.push(ProjItem::Var(g));
                // a second grouping variable (composite group keys) for about half of the grouped queries
                if r.proj_sel.len() >= 2 && r.proj_sel[1] % 2 == 0 && certain.len() >= 2 {
                    let g2 = certain[pick_idx(r.proj_sel[1], certain.len())].clone();
                    if !group_by.contains(&g2) {
                        group_by.push(g2.clone());
                        items.push(ProjItem::Var(g2));
                    }
                }
            }
            for (k, s) in &r.agg {
                let kind = [AggKind::Sum, AggKind::Min, AggKind::Max, AggKind::Avg][*k as usize % 4];
                let v = numeric_certain[pick_idx(*s, numeric_certain.len())].clone();
                if group_by.contains(&v) {
                    continue;
                }
                items.push(ProjItem::Agg(kind, v, self.fresh_var()));
            }
            if items.iter().any(|i| matches!(i, ProjItem::Agg(..))) {
                Proj::Items(items)
            } else {
                group_by.clear();
                Proj::Star
            }
        } else if r.proj_mode <= 1 || all_cols.is_empty() {
            Proj::Star
        } else {
            let mut vs: Vec<String> = vec![];
            for s in &r.proj_sel {
                let v = all_cols[pick_idx(*s, all_cols.len())].clone();
                if !vs.contains(&v) {
                    vs.push(v);
                }
            }
            if r.proj_mode >= 5 {
                // project everything, explicit list
                vs = all_cols.clone();
            }
            Proj::Items(vs.into_iter().map(ProjItem::Var).collect())
        };
        let mut q = Select { distinct: r.distinct, proj, from: vec![], from_named: vec![], body, group_by, order: vec![], limit: None };
        let mut cols = q.columns();
        if !q.distinct && !q.has_agg() && q.group_by.is_empty() && matches!(q.proj, Proj::Items(_)) {
            // a select may sort by a variable it does not project (ORDER BY applies before the projection)
            for v in &vi.certain {
                if !cols.contains(v) {
                    cols.push(v.clone());
                }
            }
        }
        if !cols.is_empty() {
            for (s, d) in &r.order {
                let v = cols[pick_idx(*s, cols.len())].clone();
                if !q.order.iter().any(|(x, _)| *x == v) {
                    q.order.push((v, *d));
                }
            }
        }
        q.limit = r.limit.map(|l| l as usize);
        if !top && q.limit.is_some() && q.order.is_empty() && !cols.is_empty() {
            // nested LIMIT without ORDER BY is legal but leaves the cut open; order by every column instead
            q.order = cols.iter().map(|c| (c.clone(), false)).collect();
        }
        if top {
            q.from = r.from.iter().map(|g| GRAPHS[*g as usize % GRAPHS.len()].to_string()).collect();
            q.from_named = r.from_named.iter().map(|g| GRAPHS[*g as usize % GRAPHS.len()].to_string()).collect();
        }
        q
    }
}

/// (dataset, top-level query) strategy inside the supported fragment; triple patterns are mostly
/// derived from triples of the generated dataset so that joins actually hit.
pub fn data_query_strategy(depth: u32, max_default: usize, max_named: usize) -> BoxedStrategy<(DataSet, Select)> {
    (dataset_strategy(max_default, max_named), raw_select(depth, true))
        .prop_map(|(d, r)| {
            let q = Builder::new(&d).select(&r, true);
            (d, q)
        })
        .boxed()
}

/// (dataset, query) pairs in which a `GRAPH ?g { ... }` block uses its graph variable as a TERM of its patterns
/// (`GRAPH ?g { ?x p0 ?y . ?g p1 ?y }`), over data in which triples about a named graph are stored in that graph, in
/// another named graph or in the default graph. The block is a join, so every join algorithm / pattern order meets a
/// scan whose graph variable is bound by the scan itself or by the other side.
pub fn graph_var_term_strategy() -> BoxedStrategy<(DataSet, Select)> {
    let term = |i: usize| -> Tm {
        match i % 7 {
            0 => Tm::Iri(format!("{NS}s0")),
            1 => Tm::Iri(format!("{NS}s1")),
            2 => Tm::Iri(GRAPHS[0].to_string()),
            3 => Tm::Iri(GRAPHS[1].to_string()),
            4 => Tm::Iri(GRAPHS[2].to_string()),
            5 => Tm::Iri(format!("{NS}o0")),
            _ => Tm::Iri(format!("{NS}s12")),
        }
    };
    let triple = (0usize..7, 0usize..2, 0usize..7).prop_map(move |(s, p, o)| [term(s), Tm::Iri(format!("{NS}p{p}")), term(o)]);
    let graph = proptest::collection::vec(triple.clone(), 1..7);
    (
        proptest::collection::vec(triple, 0..5),
        proptest::collection::vec(graph, 2..=3),
        proptest::collection::vec((0usize..6, any::<bool>()), 2..=3),
        proptest::option::weighted(0.3, 0usize..3),
        any::<bool>(),
    )
        .prop_map(|(default, graphs, pats, outside, gname)| {
            let named: Vec<(String, Vec<Triple3>)> = graphs.into_iter().enumerate().map(|(i, ts)| (GRAPHS[i].to_string(), ts)).collect();
            let g = if gname { "g" } else { "a" };
            let v = |n: &str| PT::Var(n.to_string());
            let p = |i: usize| PT::C(Tm::Iri(format!("{NS}p{i}")));
            let other = if g == "a" { "x" } else { "a" };
            let shapes: Vec<[PT; 3]> = vec![
                [v(other), p(0), v("b")],
                [v(g), p(1), v("b")],
                [v("b"), p(1), v(g)],
                [v(g), p(0), v(other)],
                [v(other), p(1), v("c")],
                [v(g), p(0), v(g)],
            ];
            let mut inner: Vec<[PT; 3]> = pats.iter().map(|(i, _)| shapes[*i].clone()).collect();
            // at least one pattern of the block uses the graph variable as a term
            if !inner.iter().any(|t| t.iter().any(|x| matches!(x, PT::Var(n) if n == g))) {
                inner.push(shapes[1].clone());
            }
            if pats[0].1 {
                inner.reverse();
            }
            let mut body = vec![Elem::Graph(GName::Var(g.to_string()), vec![Elem::Bgp(inner)])];
            if let Some(k) = outside {
                // the graph variable also joins with the default graph
                let t = [[v(g), p(0), v("d")], [v("d"), p(1), v(g)], [v("b"), p(0), v("d")]][k].clone();
                if k == 0 {
                    body.insert(0, Elem::Bgp(vec![t]));
                } else {
                    body.push(Elem::Bgp(vec![t]));
                }
            }
            let q = Select { distinct: false, proj: Proj::Star, from: vec![], from_named: vec![], body, group_by: vec![], order: vec![], limit: None };
            (DataSet { default, named }, q)
        })
        .boxed()
}

/// where the patterns of a group will be matched (used to pick data-derived patterns)
#[derive(Clone, Debug)]
pub enum Scope {
    Default,
    Named(String),
    AnyNamed,
}

// ---- structural labels ----

pub fn count_ops(elems: &[Elem], f: &mut dyn FnMut(&Elem)) {
    for e in elems {
        f(e);
        match e {
            Elem::Group(g) | Elem::Graph(_, g) => count_ops(g, f),
            Elem::Union(bs) => {
                for b in bs {
                    count_ops(b, f);
                }
            }
            Elem::Sub(q) => count_ops(&q.body, f),
            _ => {}
        }
    }
}

// ------------------------------------------------------------------------------------------
// comparing an engine answer with the reference answer
// ------------------------------------------------------------------------------------------

pub fn features(q: &Select) -> Vec<&'static str> {
    let mut f: BTreeSet<&'static str> = BTreeSet::new();
    fn walk(q: &Select, f: &mut BTreeSet<&'static str>, nested: bool) {
        if q.distinct {
            f.insert(if nested { "sub-distinct" } else { "distinct" });
        }
        if q.has_agg() {
            f.insert(if nested { "sub-agg" } else { "agg" });
        }
        if q.group_by.len() >= 2 {
            f.insert("group-by-2");
        }
        if q.order.iter().any(|(v, _)| !q.columns().contains(v)) {
            f.insert(if nested { "sub-order-by-unprojected-variable" } else { "order-by-unprojected-variable" });
        }
        if !q.order.is_empty() {
            f.insert(if nested { "sub-order" } else { "order" });
        }
        if q.limit.is_some() {
            f.insert(if nested { "sub-limit" } else { "limit" });
        }
        if !q.from.is_empty() {
            f.insert("from");
        }
        if !q.from_named.is_empty() {
            f.insert("from-named");
        }
        let mut subs = vec![];
        count_ops(&q.body, &mut |e| match e {
            Elem::Bgp(ts) => {
                if ts.len() > 1 {
                    f.insert("bgp-multi");
                }
                if ts.iter().any(|t| matches!(t[1], PT::Var(_))) {
                    f.insert("var-pred");
                }
            }
            Elem::Group(_) => {
                f.insert("group");
            }
            Elem::Union(_) => {
                f.insert("union");
            }
            Elem::Graph(GName::Var(v), body) => {
                f.insert("graph-var");
                let mut used = false;
                count_ops(body, &mut |e| {
                    if let Elem::Bgp(ts) = e {
                        used |= ts.iter().any(|t| t.iter().any(|x| matches!(x, PT::Var(n) if n == v)));
                    }
                });
                if used {
                    f.insert("graph-var-used-as-term");
                }
            }
            Elem::Graph(GName::Iri(_), _) => {
                f.insert("graph-iri");
            }
            Elem::Filter(_) => {
                f.insert("filter");
            }
            Elem::Bind(..) => {
                f.insert("bind");
            }
            Elem::Values(_, rows) => {
                f.insert("values");
                if rows.iter().any(|r| r.iter().any(|c| c.is_none())) {
                    f.insert("values-undef");
                }
                if rows.iter().enumerate().any(|(i, r)| rows[..i].contains(r)) {
                    f.insert("values-repeated-row");
                }
            }
            Elem::Sub(s) => {
                f.insert("subquery");
                subs.push((**s).clone());
            }
        });
        // count_ops already descends into sub bodies; only the modifiers need the nested walk
        for s in subs {
            let mut inner = BTreeSet::new();
            walk(&Select { body: vec![], ..s }, &mut inner, true);
            f.extend(inner);
        }
    }
    walk(q, &mut f, false);
    f.into_iter().collect()
}

fn row_strings(rows: &[Vec<Option<String>>]) -> Vec<Vec<String>> {
    rows.iter().map(|r| r.iter().map(|c| c.clone().unwrap_or_default()).collect()).collect()
}

/// Multiset difference a − b.
fn multiset_minus(a: &[Vec<String>], b: &[Vec<String>]) -> Vec<Vec<String>> {
    let mut cnt: BTreeMap<&Vec<String>, i64> = BTreeMap::new();
    for r in b {
        *cnt.entry(r).or_default() += 1;
    }
    let mut out = vec![];
    for r in a {
        let c = cnt.entry(r).or_default();
        if *c > 0 {
            *c -= 1;
        } else {
            out.push(r.clone());
        }
    }
    out
}

/// Check an engine answer (`got`, rows over `q.columns()`, "" = unbound) against the full reference
/// answer. Returns (sig-suffix, detail) on a mismatch.
/// `check_answer` for a top-level select whose ORDER BY uses variables it does not project. `ext` are the reference rows
/// with the hidden key columns appended (`eval_select_ext`). The returned rows carry no key values, so each is given
/// the key values of the reference rows with the same projected cells — possible only when those are unique; otherwise
/// the order clauses are not judged (Ok(false) = judged without the order, Ok(true) = fully judged).
pub fn check_answer_hidden_keys(q: &Select, ext: &[Vec<Option<String>>], visible: usize, got_raw: &[Vec<String>]) -> Result<bool, (String, String)> {
    let canon_row = |r: &[Option<String>]| -> Vec<String> { r.iter().map(|c| canon_num(&c.clone().unwrap_or_default())).collect() };
    let mut keys_of: BTreeMap<Vec<String>, BTreeSet<Vec<Option<String>>>> = BTreeMap::new();
    for r in ext {
        keys_of.entry(canon_row(&r[..visible])).or_default().insert(r[visible..].to_vec());
    }
    let functional = keys_of.values().all(|s| s.len() == 1);
    let strip: Vec<Vec<Option<String>>> = ext.iter().map(|r| r[..visible].to_vec()).collect();
    if !functional {
        let mut q2 = q.clone();
        q2.order.clear();
        return check_answer(&q2, &strip, got_raw).map(|_| false);
    }
    // every projected column plus the hidden keys, as if they had been projected
    let mut cols = q.columns();
    for (v, _) in &q.order {
        if !cols.contains(v) {
            cols.push(v.clone());
        }
    }
    let mut q2 = q.clone();
    q2.proj = Proj::Items(cols.into_iter().map(ProjItem::Var).collect());
    let mut got_ext: Vec<Vec<String>> = vec![];
    for r in got_raw {
        if r.len() != visible {
            return Err(("shape".into(), format!("row width {} but {} columns: {:?}", r.len(), visible, r)));
        }
        let key: Vec<String> = r.iter().map(|c| canon_num(c)).collect();
        match keys_of.get(&key).and_then(|s| s.iter().next()) {
            Some(k) => {
                let mut e = r.clone();
                e.extend(k.iter().map(|c| c.clone().unwrap_or_default()));
                got_ext.push(e);
            }
            None => return Err((if q.limit.is_some() { "limit.subset".into() } else { "multiset".into() }, format!("returned row {:?} is not in the full answer", r))),
        }
    }
    check_answer(&q2, ext, &got_ext).map(|_| true)
}

pub fn check_answer(q: &Select, full: &[Vec<Option<String>>], got_raw: &[Vec<String>]) -> Result<(), (String, String)> {
    let cols = q.columns();
    let agg_cols: Vec<usize> = match &q.proj {
        Proj::Items(items) => items.iter().enumerate().filter(|(_, i)| matches!(i, ProjItem::Agg(..))).map(|(i, _)| i).collect(),
        _ => vec![],
    };
    for r in got_raw {
        if r.len() != cols.len() {
            return Err(("shape".into(), format!("row width {} but {} columns {:?}: {:?}", r.len(), cols.len(), cols, r)));
        }
    }
    let got: Vec<Vec<String>> = got_raw
        .iter()
        .map(|r| r.iter().map(|c| canon_num(c)).collect())
        .collect();
    // aggregate values are compared numerically, not textually: every numeric-looking cell (aggregates may
    // surface through sub-selects in any column) is put into one canonical rendering on both sides; the
    // generated universe only contains canonical integers, so this never equates distinct terms
    let _ = &agg_cols;
    let exp: Vec<Vec<String>> = row_strings(full).into_iter().map(|r| r.iter().map(|c| canon_num(c)).collect()).collect();
    let keys: Vec<(usize, bool)> = q.order.iter().filter_map(|(v, d)| cols.iter().position(|c| c == v).map(|i| (i, *d))).collect();
    let as_opt = |r: &Vec<String>| -> Vec<Option<String>> { r.iter().map(|c| if c.is_empty() { None } else { Some(c.clone()) }).collect() };
    // sortedness of the returned sequence
    if !keys.is_empty() {
        for w in got.windows(2) {
            if cmp_rows(&as_opt(&w[0]), &as_opt(&w[1]), &keys) == Some(std::cmp::Ordering::Greater) {
                return Err(("order".into(), format!("rows out of order under ORDER BY {:?}: {:?} before {:?}", q.order, w[0], w[1])));
            }
        }
    }
    match q.limit {
        None => {
            let missing = multiset_minus(&exp, &got);
            let extra = multiset_minus(&got, &exp);
            if !missing.is_empty() || !extra.is_empty() {
                return Err(("multiset".into(), format!("columns {:?}: missing rows {:?}; unexpected rows {:?} (expected {} rows, got {})", cols, missing, extra, exp.len(), got.len())));
            }
        }
        Some(n) => {
            let want = n.min(exp.len());
            if got.len() != want {
                return Err(("limit.len".into(), format!("LIMIT {n}: full answer has {} rows, expected {want} rows, got {}", exp.len(), got.len())));
            }
            let extra = multiset_minus(&got, &exp);
            if !extra.is_empty() {
                return Err(("limit.subset".into(), format!("LIMIT {n}: returned rows not in the full answer: {:?}", extra)));
            }
            if !keys.is_empty() {
                let omitted = multiset_minus(&exp, &got);
                for g in &got {
                    for o in &omitted {
                        if cmp_rows(&as_opt(g), &as_opt(o), &keys) == Some(std::cmp::Ordering::Greater) {
                            return Err(("limit.cut".into(), format!("LIMIT {n} with ORDER BY {:?}: returned row {:?} sorts after omitted row {:?}", q.order, g, o)));
                        }
                    }
                }
            }
        }
    }
    Ok(())
}
