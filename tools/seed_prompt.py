#!/usr/bin/env python3
"""tools/seed_prompt.py <Cxx> <crate> [round] : print the prompt given to an independent seeding sub-agent.
The agent gets ONLY the property record and a scratch worktree; nothing from /verif."""
import json, sys, subprocess
pid = sys.argv[1]; crate = sys.argv[2]; rnd = sys.argv[3] if len(sys.argv) > 3 else ""
tag = pid + (("-" + rnd) if rnd else "")
rec = None
for l in open('/verif/properties.jsonl'):
    r = json.loads(l)
    if r['id'] == pid:
        rec = r
avoid = sys.argv[4] if len(sys.argv) > 4 else ""
S = f"/tmp/seed-{tag}"
print(f"""You are helping to evaluate a verification harness for the Rust project Kolibrie (SPARQL/RDF query engine,
RDF stream-processing windows, Datalog reasoner, LSM/WAL store). Your job: write ONE realistic source change
("seeded defect") that BREAKS the semantic property below while the project still compiles and the existing
test suite still passes, plus a small demonstration that fails with your change and passes without it.

## The property (this is all you are told; do not look for other material)
id: {rec['id']}
title: {rec['title']}
statement: {rec['statement']}
quantified over: {rec['quantifier']['text']}
why the existing tests cannot settle it: {rec['why_tests_cant']}
code anchors: {json.dumps(rec['anchors'], indent=1)}

## Your workspace
* `{S}/repo` is a private git worktree of the project (already created, at the current HEAD). Work ONLY there.
  Use `CARGO_TARGET_DIR={S}/target` and `--offline` for every cargo command (no network exists), and at most `-j 6`.
* You must NOT read or write anything under `/verif`, and must NOT touch `/repo` (neither files nor git commands
  that change it). Other `/tmp/seed-*` and `/tmp/kvh-*` directories belong to other people: leave them alone.
* Deliver into `{S}/out/` (create it):
  - `patch.diff` — `git diff` (unified, relative to the repo root) of your change to the project's *source* files only
    (NOT including the demonstration file);
  - `seeded_demo.rs` — the demonstration: an integration test file that you place at `{S}/repo/{crate}/tests/seeded_demo.rs`
    (copy it to out/ as well). It uses only the crate's public API, is deterministic, runs in well under a minute,
    FAILS (assertion, not compile error) with your change and PASSES without it;
  - `demo_cmd.txt` — the exact command, normally
    `cd {S}/repo && CARGO_TARGET_DIR={S}/target cargo test --offline -j 6 -p {crate} --test seeded_demo`;
  - `meta.json` — {{"property": "{pid}", "what_it_breaks": "<which clause of the statement, and how>",
    "needs_to_manifest": "<the specific interleaving / fault point / multi-step sequence / unusual input / pair of sites needed>",
    "files_touched": [...], "existing_tests_run": "<command(s) you ran and their result>",
    "demo_result_with_change": "...", "demo_result_clean": "..."}}.
  Leave your source change APPLIED in the worktree when you finish (and the demo file in place).

## What makes a good seeded change
* It looks like something a maintainer could plausibly commit: an optimisation, a refactoring, an off-by-one at a
  boundary, a cache that is not invalidated, a dropped re-check, a changed iteration order, an early exit, a
  saturating/wrapping change, a fast path that skips a rare case. NOT a blatant `if input == magic`.
* It needs something SPECIFIC to manifest: a particular interleaving, a crash/fault/budget expiry at a particular
  point, a multi-step sequence of operations, an unusual (but legal) input shape, or two cooperating sites that each
  look fine alone. Ordinary use — and in particular the existing tests — must not expose it at once.
* It must violate the property AS STATED (read the statement clause by clause and pick one clause). A change that
  merely alters unspecified behaviour (log text, error wording, performance, output order where the property
  promises none) is useless.
* The project must still compile (`cargo build --offline -p {crate}` and every crate depending on what you touched),
  and the existing tests of every crate you touched must still pass: run
  `cd {S}/repo && CARGO_TARGET_DIR={S}/target cargo test --offline -j 6 -p shared -p datalog -p kolibrie --lib --tests --no-fail-fast`
  (restrict to the crates affected by your change and their dependants: shared <- datalog <- kolibrie) BEFORE and
  AFTER your change and compare. One test, `rsp_ql_dstream_semantics` in kolibrie's rsp_engine_test, fails on the
  unchanged tree already: ignore it. No other test may newly fail. Do not edit, delete or `#[ignore]` existing tests.
{("* Earlier seeded changes for this property already covered: " + avoid + " — pick a DIFFERENT clause / mechanism.") if avoid else ""}
* Prefer a change in the code path the anchors point to; read that code first, find which behaviour the existing
  tests pin down, and hide your change where they do not look.

## Final message
Report: the clause broken, the change in two sentences, what it needs to manifest, the demo result with / without
the change, and the existing-test results. Keep it short.""")
