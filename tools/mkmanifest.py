#!/usr/bin/env python3
"""Regenerates /verif/MANIFEST.json from the table below (kept in one place so it is always valid)."""
import json, os
V = "/verif"
CHECKS = {
 "C14": dict(cat="exploration",
   text="round-trip oracle over generated datasets (valid http/https/urn/mailto IRIs, blank nodes, quoted triples nested once, arbitrary Unicode literals that cannot be mistaken for another term kind: quotes, backslashes, newlines, controls, U+2028, combining and astral characters, empty string, edge whitespace, long values with a special character on the 1 KiB / 4 KiB / 8 KiB boundary): generate_nquads -> parse_nquads_and_add (all graphs), generate_ntriples -> parse_ntriples_and_add and generate_turtle -> parse_turtle (default graph) into an empty database must reproduce the lexical quads; failures are attributed to c14.<format>.<class> by isolating round trips; 20 000 datasets quick, 1 M + a libFuzzer campaign of the same oracle (byte-decoded datasets) thorough, saved corpus replayed on the stable build every run",
   note="trusted: lexical identity of terms as stored by Dictionary::encode / rendered by decode_any; term kinds share one lexical space (an IRI exported as a string literal is indistinguishable after re-import); blank-node labels compared literally; the loader is re-checked on every case",
   tech="round-trip property-based testing (proptest) + coverage-guided fuzzing (libFuzzer, arbitrary-decoded datasets) with the oracle in the target"),

 "C16": dict(cat="exploration",
   text="totality: 14 public parsers per input under catch_unwind, acceptance must consume the whole input for the three whole-request parsers; inputs = exhaustive sweep of every char offset of a 166-request corpus (from the repo's tests/examples) x {6 multi-byte insertions, delete, duplicate token, truncate}, token-level mutations of generated queries, deep nesting and long runs ({ << ( ! - UNION chains, sub-SELECTs, CONCAT arguments x 10^2..10^5) in a child process on a 2 MiB-stack thread, a history part (a valid request re-parsed after each of 1-12 hostile inputs on the same fresh thread must give the same tree), and (thorough) a libFuzzer campaign with the same oracle in the target; faithfulness: generated SELECT/update syntax trees printed twice with independent layout choices (whitespace, # comments, keyword case, ?x/$x, optional WHERE, ./;/, abbreviations, quote forms, prefixed names) and the parsed AST compared structurally with the tree and between the two printings",
   note="trusted: documented AST normal form of shared::query with the merge-adjacent-BGP / one-member-group normalisation on both sides; harness tokeniser for raw operand slices; stack exhaustion observed as death of a child whose parser thread has a 2 MiB stack; layout restricted to what the code and tests accept",
   tech="property-based round-trip testing (proptest) + exhaustive mutation sweep + coverage-guided fuzzing (libFuzzer) with an in-target oracle"),

 "C13": dict(cat="exploration",
   text="parameter-driven document generation for the five loaders (N-Triples, N-Quads, Turtle, N3, RDF/XML in their line-oriented subsets; comments/blank lines, prefixes only at the top or re-bound mid-document, ;/, shorthand, CRLF) with an exact model oracle (lexical quads after == before + document triples, as multisets), a split-document metamorphic relation (one call == several small documents) and a cross-format relation (same triples in two formats load identically); exhaustive enumeration of format x boundary size (0,1,2,999,1000,1001,1999,2000,2001,2500 lines; 8191/8192/8193/16385 XML triples) x prior content (empty / API / other loader / named graphs only / added then deleted / dictionary only) x rayon pool size (1,2,16), plus random cases",
   note="trusted: lexical conventions from README and tests; the N3 literal convention is read from a one-statement load (open finding C13-F4: N3 keeps the quotes); thread schedules only sampled through pool sizes; multi-line N3 statements and N3 ',' / 'a' are outside the generated subset",
   tech="property-based testing (proptest) + exhaustive boundary enumeration; model oracle and metamorphic relations"),

 "C18": dict(cat="exploration",
   text="Reasoner::backward_chaining against an independent least-fixpoint model with derivation heights: soundness (every answer ground and entailed), completeness for every matching fact of height <= 10, renaming invariance over 2-3 renamings of the goal's variables (names from the v<n> family included); parts: acyclic programs (a third with filters), 2880 enumerated chain programs of height 1..11 (depth boundary), random recursive programs (19 rule shapes), filter programs",
   note="trusted: reading of the depth guard (depth > 10 per rule nesting); filter semantics restricted to =/!= between variables and numeric comparison on integer-named individuals, judged only where forward chaining agrees with the oracle; programs above an SLD-size estimate of 8000 are dropped and counted",
   tech="property-based differential testing (proptest) + bounded enumeration against a least-fixpoint oracle; metamorphic renaming relation"),

 "C11": dict(cat="exploration",
   text="engines built through RSPBuilder from generated RSP-QL text with 2-3 windows on distinct streams, per-window blocks over a shared vocabulary, 0-2 static patterns (joining a window variable or sharing none) with static data, policies Wait/Steal/Timeout, single- and multi-thread mode; one probe window per configured window records every content that window reported; every emitted row restricted to the variables of block k must be a reference-BGP answer of block k over SOME content window k reported so far, and its static part an answer of the static patterns over the static data alone; parts: shared-vocabulary blocks, blocks joining on 2-3 variables over confusable value tuples, and histories built so that a block could be answered by mixing two reports of its own window",
   note="trusted: probe windows and the reference BGP evaluator; the oracle is existential over past firings of the same window, hence sound for every synchronisation policy (it does not decide WHICH content must be used); multi-thread runs only perturb, they do not enumerate schedules; known finding C11-F1 (one shared store for all windows) covers only rows that are answers over ONE report of the window plus items other windows reported; a row needing two reports of the same window has its own signature",
   tech="model-based property testing (proptest) with probe windows and a per-block explanation oracle"),

 "C08": dict(cat="fault_enumeration",
   text="generated lineage DAGs (<=12 seeds, independent and exclusive groups, monotone and non-monotone) x valid HybridConfigs x deadline expiry injected at EVERY clock reading n<=R through the injectable HybridClock, plus a two-jump sweep, a node-budget sweep and the same sweep on compile_lineage_to_sdd_with_clock; evaluate_topk with ample budgets; an end-to-end part drives Reasoner::infer_new_facts_with_hybrid on acyclic programs; oracle = explicit world enumeration over the harness's own copy of the formula: Exact equals the true probability, every interval contains it, Alert => p>=threshold, NoAlert => p<threshold, compiled WMC exact, never UnsafeApproximation",
   note="trusted: world-enumeration oracle; exclusive group = exactly one member true with probability p_i (sum 1); every referenced seed is in the snapshot; budgets in (0,1h); invalid configurations must yield NeedsExact (from validate()); ~4% of cases with R>2500 are swept at 400 sampled n",
   tech="property-based testing (proptest) + exhaustive fault enumeration over clock readings / node budgets against a possible-worlds oracle"),
 "C10": dict(cat="exploration",
   text="engines built through RSPBuilder from generated RSP-QL text (one window, 1-3 patterns, RSTREAM/ISTREAM/DSTREAM, 0-3 N3 rules sharing vocabulary with the stream) fed generated in-order streams; a probe CSPARQLWindow with identical parameters gives the content of every firing and the expected rows are the reference BGP answers over content + least fixpoint of the rules, through a stream-operator model; single-thread runs are compared per add call, multi-thread runs are repeated under perturbed schedules (hook H1 yield points + producer pauses; the first schedule of every case holds the worker at its first firing until the whole stream is ingested) and the emitted sequence is compared chunk by chunk with the single-thread sequence (the number of firings the worker processed is recorded, not judged)",
   note="trusted: probe window (C09 decides its own correctness), reference BGP evaluator and fixpoint; schedules are perturbed, not enumerated - the harness does not own the OS scheduler, so 'every thread schedule' is sampled only; stop()/flush() not called; IRIs only",
   tech="model-based property testing (proptest) with seeded schedule perturbation through a cfg-guarded hook"),

 "C01": dict(cat="exploration",
   text="differential testing against an independent reference evaluator: generated (dataset, SELECT text) pairs over default+named graphs (empty graphs, same triple in several graphs) and a recursive query grammar (BGP, nested groups, UNION, GRAPH <iri>/?g, group-scoped FILTER, BIND, VALUES/UNDEF, sub-SELECT with modifiers, FROM/FROM NAMED, GROUP BY aggregates, DISTINCT/ORDER BY/LIMIT) run through execute_sparql_query (and the legacy volcano entry point); rows compared as multisets, sortedness under ORDER BY, legal-cut predicate under LIMIT; extra parts for ORDER BY over mixed-kind keys and for DISTINCT/GROUP BY over composite keys whose value tuples are easy to confuse (prefix-related IRIs, literals whose concatenations coincide); VALUES blocks repeat rows; a quarter of the cases run the query again on the used database; GRAPH ?g blocks that use ?g as a term over data about named graphs; nested and top-level ORDER BY on variables that are not projected (hidden-key judgement); pairs of sub-SELECTs identical except for one modifier",
   note="trusted: the nested-loop SPARQL 1.1 algebra evaluator in harness/src/sparql.rs (written from the spec, no engine code) and the supported-fragment restrictions a-f of DESIGN C01 enforced by construction; SELECT * column order = first syntactic appearance; sizes bounded (<=40 default triples, depth <=3)",
   tech="property-based differential testing (proptest): grammar-based query generation + reference SPARQL algebra oracle"),
 "C02": dict(cat="exploration",
   text="metamorphic + differential testing of the planning pipeline driven through its public pieces: per generated query the baseline (source order, fresh stats, chosen plan, 1 thread) must equal the reference evaluator, and every variant - permuted BGPs, empty/stale/adversarial statistics, every assignment of bind/hash/nested-loop to the join nodes of the chosen plan (all 3^j for j<=3, else sampled), scan-strategy flips, rayon pools of 2/3/8/16 threads (thorough: every size 2..16), and a stale cached-statistics end-to-end scenario - must equal the baseline; a second part runs the same variants over GRAPH ?g joins whose patterns use the graph variable as a term",
   note="trusted: reference evaluator of C01; fragment restriction (a) (the condition under which the three join algorithms are specified to agree); thread schedules only perturbed through pool sizes; join-node rewriting assumes the optimizer considers all three algorithms for every join (it does: find_best_plan_recursive)",
   tech="metamorphic property-based testing (proptest) with plan rewriting + reference SPARQL algebra oracle"),
 "C03": dict(cat="exploration",
   text="model-based histories: generated initial dataset followed by 1-14 (quick) / 1-25 (thorough) update requests of the six supported forms (self-referential templates, GRAPH ?g templates, blank-node templates, literal-in-subject/predicate/graph instantiations, unbound template variables, ground multi-quad DELETE WHERE blocks with absent quads, scheme-less IRIs as subjects) interleaved with requests that must be rejected; after every step the complete lexical dataset and graph catalog must equal reference SPARQL Update semantics (WHERE once on the pre-state, delete-then-insert, per-solution fresh blank nodes up to injective renaming), UpdateSummary must equal the number of changed quads, a rejected request changes nothing",
   note="trusted: reference step semantics in harness/src/update.rs on top of the C01 evaluator; term kinds lexically decidable in the generated universe except for the scheme-less IRIs <rel0>/<rel1>, which count as IRIs where the pre-operation dataset already has them as subjects and leave the step unjudged otherwise; catalog life-cycle as in C04",
   tech="model-based property testing (proptest) of update histories against a reference SPARQL Update model"),
 "C05": dict(cat="exploration",
   text="generated Datalog programs over triples (1-4 premises, constants, repeated variables, variable predicates, multi-conclusion, numeric filters, recursion, one stratum of safe negation) x 4 strategies (naive, semi-naive, parallel, Boolean-provenance) x 2 insertion orders; store == facts + least model (both directions), returned vector == new facts without duplicates, second run derives nothing, unsafe negated rules rejected",
   note="trusted: independent naive T_P least-fixpoint oracle (harness/src/oracle_datalog.rs, unit-tested); numeric/identity filter reading (ambiguous cases skipped and counted); restricted negation class, negation only on the provenance strategy; the parallel strategy is judged like the others since C05-F1..F3 were fixed (cd17b52)",
   tech="property-based differential testing (proptest) against a least-fixpoint oracle; thorough tier adds a small coverage-guided campaign (libFuzzer drives the same strategy through proptest's PassThrough generator)"),
 "C06": dict(cat="exploration",
   text="generated programs (recursive, shared evidence, cycles, negation class) with 1-8 (thorough: up to 12) uncertain input facts; exhaustive enumeration of all 2^n worlds gives the possible-worlds probability; DnfWmc and Sdd modes must equal it within 1e-9, MinMax must equal the widest-path value, Boolean must equal derivability, every fact of positive probability must be present, both insertion orders agree",
   note="trusted: world-enumeration oracle (bitset form cross-checked against explicit enumeration for n<=8), f64 arithmetic; AddMult and TopK are approximations by their own documentation and not asserted",
   tech="property-based testing (proptest) against exhaustive possible-worlds enumeration"),
 "C07": dict(cat="fault_enumeration",
   text="truth-table oracle: all 256x256x2 operand pairs over 3 variables x 2 entry points exhaustively (x 6 variable-introduction orders in thorough); generated operation histories over <=8 variables (apply/negate/exactly_one/literal, variables introduced at any time, budgeted twins) checked for exactness, canonicity both ways, WMC and gradient sums (counts also immediately before and after every re-registration of a variable with another weight); for a chosen budgeted operation every deadline checkpoint k and every node budget is enumerated on a fresh manager, the history continues after the Err and everything is re-checked",
   note="trusted: bit-level Boolean-function oracle sharing nothing with sdd.rs; group WMC compared only on h AND exactly_one(G) for all registered groups; same result = same handle on the same manager + same canonical structure on the twin manager; <=8 variables, <=80 operations, one interrupted operation per history",
   tech="model-based property testing (proptest) + bounded exhaustive enumeration + exhaustive interruption-point enumeration through the injectable budget callback"),
 "C17": dict(cat="exploration",
   text="generated and mutated request strings (SELECTs, all six update forms, legacy aliases, RULE/REGISTER texts, requests with an extension clause (RULE / RETRIEVE) in front of their SELECT or update operation, numeric escapes in every place an IRI is lexed, garbage; multi-byte insertion, delimiter insertion, deletion, token duplication, truncation) x generated datasets x every string entry point incl. HTTP adapters; lexical snapshot (quads + catalog) unchanged around every query-path call and every Err, Err for everything the parser rejects and for update syntax on the query path, Ok for well-formed SELECTs, no panic; plus an exhaustive sweep of every char-boundary offset of 20 corpus requests x 6 multi-byte characters; a deep-requests part (requests with 200 / 5 000 / 100 000 levels or repetitions of { ( ! - sub-SELECT, also in update WHERE clauses, sent to the three error-preserving entry points on a 2 MiB-stack thread of a child process that must survive); thorough: 6 parallel libFuzzer jobs x 60 000 executions of the same oracle (target request_total), crash files re-judged on the stable build",
   note="trusted: parse_combined_query as the classifier of what is an update / malformed; snapshot through all_quads + named_graphs; TRAIN/ML execution requests are not generated",
   tech="property-based testing with string mutation (proptest) + exhaustive offset sweep + coverage-guided fuzzing (libFuzzer) with the snapshot-equality oracle in the target"),
 "C19": dict(cat="exploration",
   text="generated fact sets (3-9 facts) with 1-3 premise-only constraints and goals with 0-2 variables; oracle enumerates all 2^n subsets, takes the subset-maximal consistent ones and expects exactly the goal instances in every one of them; each case is run 10 times on freshly built reasoners (fresh hash seeds) and every run must equal the oracle; repair-aware materialisation must end in a store without constraint match",
   note="trusted: consistency = no conjunctive match of any constraint (harness matcher); constraint filters/negation outside the domain; n<=9",
   tech="property-based testing (proptest) against exhaustive subset enumeration, repeated runs for order dependence"),

 "C09": dict(cat="exploration",
   text="bounded-exhaustive core (every in-order stream of <=6 (quick) / <=8 (thorough) events with gaps from {0,1,2,3,7,20} and first ts in {0,1,s,s+1} for all width, slide in 1..=5) plus proptest-generated streams (dense/bursty/sparse gaps, width/slide up to 1000, up to 300 events) fed into CSPARQLWindow<u32> in the engine builder's configuration; an independent reference model computes per firing the set of aligned closes that explain the reported content; content, trigger, monotone-interval and density (each closing interval exactly once) clauses are checked on it",
   note="trusted: closed-form feasible-close computation (self-checked against literal enumeration on all small cases); an interval is identified only by its content so the verdict is existential over feasible closes; intervals closing at or before the first event are optional; flush() excluded; known finding C09-F1 excluded only through its own signature",
   tech="bounded exhaustive enumeration + property-based testing (proptest) against a reference window model; thorough tier adds a coverage-guided campaign (libFuzzer drives the same strategy through proptest's PassThrough generator)"),

 "C12": dict(cat="exploration",
   text="property-based history replay: 60k (quick) / 1.5M (thorough) generated window-consistent stream histories (2-3 windows, optional static graph, 1-2 outputs, 1-5 positive rules incl. joins, chains, recursion, multi-support heads, re-arrivals, expired leftovers, 2-10 evaluation times) with the incremental state threaded between calls; at every evaluation time naive == oracle, incremental state (facts and expiries, both directions) == oracle, nothing with expiry <= now stored, external view == naive == oracle",
   note="trusted: independent string-level widest-path least-model oracle; alive convention t+alpha>now as documented by the repo tests; prefix-free component IRIs; rules positive, range-restricted, constant predicates, no filters (join-engine corner cases are C05's); sizes bounded",
   tech="model-based property testing (proptest) against an independent widest-path Datalog oracle"),
 "C15": dict(cat="exploration",
   text="model-based property testing: <=300-op encode/decode histories at three API levels (Dictionary, QuotedTripleStore, SparqlDatabase) against an id-level model with all issued ids re-decoded after every operation; independently built database pairs with clashing ids whose union (both directions) is decoded to a lexical dataset and compared with the union of the models on quads, graph identities incl. empty graphs, probability seeds and quoted terms; operand immutability and result bijection; the pool of terms includes long terms (1 KiB .. 4 KiB); a boundary part places the dictionary's public counter just below the first quoted identifier and encodes across it (identifiers handed out must be plain, new, decodable and stable; the documented \"ID space exhausted\" refusal is accepted)",
   note="trusted: canonical << s p o >> surface syntax and the documented term normalisation are input convention; Dictionary::merge only exercised on id-compatible dictionaries; seed probability is a function of the lexical triple",
   tech="model-based property testing (proptest): reference maps for the bijection, lexical-dataset oracle for union"),

 "C04": dict(cat="exploration",
   text="model-based testing of the store API: all operation sequences up to length 3 (quick) / 4 (thorough) over a 12-quad universe exhaustively, plus long random sequences; every read path compared with a set model after each step",
   note="trusted: the BTreeSet model and the catalog life-cycle reading of the property; bounded universe and sequence length",
   tech="model-based property testing (proptest) + bounded exhaustive sequence enumeration"),
}
PENDING_REASON = "no check registered yet: harness for this property is still under construction (design in DESIGN.md Part B); it is generable and has an executable oracle, so it is not out of reach of the technique"
ALL = ["C%02d" % i for i in range(1, 20)]
def main():
    checks = []
    for pid in ALL:
        c = CHECKS.get(pid)
        if not c or not os.path.exists(f"{V}/harness/src/bin/{pid.lower()}.rs"):
            continue
        checks.append({
            "property_id": pid,
            "quick_cmd": f"./check {pid} --tier quick",
            "thorough_cmd": f"./check {pid} --tier thorough",
            "evidence_file": f"evidence/{pid}.json",
            "replay_cmd_template": f"./check {pid} --replay {{path}}",
            "engine": "kvh",
            "level_claimed": {"category": c["cat"], "text": c["text"], "design_ref": f"DESIGN.md Part B, {pid}"},
            "level_note": c["note"],
            "technique": c["tech"],
        })
    claimed = [c["property_id"] for c in checks]
    hooks_commits = []
    hc = f"{V}/tools/hook_commits.txt"
    if os.path.exists(hc):
        hooks_commits = [l.strip() for l in open(hc) if l.strip()]
    m = {
        "version": 1,
        "setup_cmd": "./check build",
        "hooks": {
            "guard": "--cfg kolibrie_verif",
            "enable": "RUSTFLAGS=\"--cfg kolibrie_verif\" is set by ./check for every harness build; the harness crate depends on /repo/kolibrie, /repo/shared, /repo/datalog by path, so each check rebuilds from the working tree",
            "baseline_off_cmd": "cd /repo && cargo test --workspace --no-fail-fast --offline",
            "source_commits": hooks_commits,
            "add_only": True,
        },
        "engines": [{
            "name": "kvh", "path": "harness", "serves_properties": claimed,
            "kind_free_text": "Rust crate: proptest-driven generators, reference models/oracles written from the specifications, one binary per property, common runner (16-worker pool, shrinking, replay files, known-finding classification, evidence)"}],
        "checks": checks,
        "notes": "Exit codes of every command: 0 held on everything explored (KNOWN-FINDING lines possible), 1 VIOLATION, 2 inconclusive (build failure/watchdog). Known findings: /verif/known_findings.json.",
        "not_applicable": [{"property_id": p, "reason": PENDING_REASON} for p in ALL if p not in claimed],
    }
    json.dump(m, open(f"{V}/MANIFEST.json", "w"), indent=1)
    print("claimed:", claimed)
if __name__ == "__main__":
    main()
