#!/usr/bin/env python3
"""Regenerates /verif/MANIFEST.json from the table below (kept in one place so it is always valid)."""
import json, os
V = "/verif"
CHECKS = {
 "C04": dict(cat="exploration",
   text="model-based testing of the store API: all operation sequences up to length 3 (quick) / 4 (thorough) over a 12-quad universe exhaustively, plus long random sequences; every read path compared with a set model after each step",
   note="trusted: the BTreeSet model and the catalog life-cycle reading of the property; bounded universe and sequence length",
   tech="model-based property testing (proptest) + bounded exhaustive sequence enumeration"),
}
PENDING_REASON = "no check registered yet: harness for this property is still under construction (design in DESIGN.md Part B); it is generable and has an executable oracle, so it is not out of reach of the technique"
ALL = ["C%02d" % i for i in range(1, 20)]
def main():
    checks = []
    for pid in ALL:
        c = CHECKS.get(pid)
        if not c or not os.path.exists(f"{V}/harness/src/bin/{pid.lower()}.rs"):
            continue
        checks.append({
            "property_id": pid,
            "quick_cmd": f"./check {pid} --tier quick",
            "thorough_cmd": f"./check {pid} --tier thorough",
            "evidence_file": f"evidence/{pid}.json",
            "replay_cmd_template": f"./check {pid} --replay {{path}}",
            "engine": "kvh",
            "level_claimed": {"category": c["cat"], "text": c["text"], "design_ref": f"DESIGN.md Part B, {pid}"},
            "level_note": c["note"],
            "technique": c["tech"],
        })
    claimed = [c["property_id"] for c in checks]
    hooks_commits = []
    hc = f"{V}/tools/hook_commits.txt"
    if os.path.exists(hc):
        hooks_commits = [l.strip() for l in open(hc) if l.strip()]
    m = {
        "version": 1,
        "setup_cmd": "./check build",
        "hooks": {
            "guard": "--cfg kolibrie_verif",
            "enable": "RUSTFLAGS=\"--cfg kolibrie_verif\" is set by ./check for every harness build; the harness crate depends on /repo/kolibrie, /repo/shared, /repo/datalog by path, so each check rebuilds from the working tree",
            "baseline_off_cmd": "cd /repo && cargo test --workspace --no-fail-fast --offline",
            "source_commits": hooks_commits,
            "add_only": True,
        },
        "engines": [{
            "name": "kvh", "path": "harness", "serves_properties": claimed,
            "kind_free_text": "Rust crate: proptest-driven generators, reference models/oracles written from the specifications, one binary per property, common runner (16-worker pool, shrinking, replay files, known-finding classification, evidence)"}],
        "checks": checks,
        "notes": "Exit codes of every command: 0 held on everything explored (KNOWN-FINDING lines possible), 1 VIOLATION, 2 inconclusive (build failure/watchdog). Known findings: /verif/known_findings.json.",
        "not_applicable": [{"property_id": p, "reason": PENDING_REASON} for p in ALL if p not in claimed],
    }
    json.dump(m, open(f"{V}/MANIFEST.json", "w"), indent=1)
    print("claimed:", claimed)
if __name__ == "__main__":
    main()
