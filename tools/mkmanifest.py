#!/usr/bin/env python3
"""Regenerates /verif/MANIFEST.json from the table below (kept in one place so it is always valid)."""
import json, os
V = "/verif"
CHECKS = {
 "C09": dict(cat="exploration",
   text="bounded-exhaustive core (every in-order stream of <=6 (quick) / <=8 (thorough) events with gaps from {0,1,2,3,7,20} and first ts in {0,1,s,s+1} for all width, slide in 1..=5) plus proptest-generated streams (dense/bursty/sparse gaps, width/slide up to 1000, up to 300 events) fed into CSPARQLWindow<u32> in the engine builder's configuration; an independent reference model computes per firing the set of aligned closes that explain the reported content; content, trigger, monotone-interval and density (each closing interval exactly once) clauses are checked on it",
   note="trusted: closed-form feasible-close computation (self-checked against literal enumeration on all small cases); an interval is identified only by its content so the verdict is existential over feasible closes; intervals closing at or before the first event are optional; flush() excluded; known finding C09-F1 excluded only through its own signature",
   tech="bounded exhaustive enumeration + property-based testing (proptest) against a reference window model"),

 "C12": dict(cat="exploration",
   text="property-based history replay: 60k (quick) / 1.5M (thorough) generated window-consistent stream histories (2-3 windows, optional static graph, 1-2 outputs, 1-5 positive rules incl. joins, chains, recursion, multi-support heads, re-arrivals, expired leftovers, 2-10 evaluation times) with the incremental state threaded between calls; at every evaluation time naive == oracle, incremental state (facts and expiries, both directions) == oracle, nothing with expiry <= now stored, external view == naive == oracle",
   note="trusted: independent string-level widest-path least-model oracle; alive convention t+alpha>now as documented by the repo tests; prefix-free component IRIs; rules positive, range-restricted, constant predicates, no filters (join-engine corner cases are C05's); sizes bounded",
   tech="model-based property testing (proptest) against an independent widest-path Datalog oracle"),
 "C15": dict(cat="exploration",
   text="model-based property testing: <=300-op encode/decode histories at three API levels (Dictionary, QuotedTripleStore, SparqlDatabase) against an id-level model with all issued ids re-decoded after every operation; independently built database pairs with clashing ids whose union (both directions) is decoded to a lexical dataset and compared with the union of the models on quads, graph identities incl. empty graphs, probability seeds and quoted terms; operand immutability and result bijection",
   note="trusted: canonical << s p o >> surface syntax and the documented term normalisation are input convention; Dictionary::merge only exercised on id-compatible dictionaries; seed probability is a function of the lexical triple; id-space exhaustion not attempted",
   tech="model-based property testing (proptest): reference maps for the bijection, lexical-dataset oracle for union"),

 "C04": dict(cat="exploration",
   text="model-based testing of the store API: all operation sequences up to length 3 (quick) / 4 (thorough) over a 12-quad universe exhaustively, plus long random sequences; every read path compared with a set model after each step",
   note="trusted: the BTreeSet model and the catalog life-cycle reading of the property; bounded universe and sequence length",
   tech="model-based property testing (proptest) + bounded exhaustive sequence enumeration"),
}
PENDING_REASON = "no check registered yet: harness for this property is still under construction (design in DESIGN.md Part B); it is generable and has an executable oracle, so it is not out of reach of the technique"
ALL = ["C%02d" % i for i in range(1, 20)]
def main():
    checks = []
    for pid in ALL:
        c = CHECKS.get(pid)
        if not c or not os.path.exists(f"{V}/harness/src/bin/{pid.lower()}.rs"):
            continue
        checks.append({
            "property_id": pid,
            "quick_cmd": f"./check {pid} --tier quick",
            "thorough_cmd": f"./check {pid} --tier thorough",
            "evidence_file": f"evidence/{pid}.json",
            "replay_cmd_template": f"./check {pid} --replay {{path}}",
            "engine": "kvh",
            "level_claimed": {"category": c["cat"], "text": c["text"], "design_ref": f"DESIGN.md Part B, {pid}"},
            "level_note": c["note"],
            "technique": c["tech"],
        })
    claimed = [c["property_id"] for c in checks]
    hooks_commits = []
    hc = f"{V}/tools/hook_commits.txt"
    if os.path.exists(hc):
        hooks_commits = [l.strip() for l in open(hc) if l.strip()]
    m = {
        "version": 1,
        "setup_cmd": "./check build",
        "hooks": {
            "guard": "--cfg kolibrie_verif",
            "enable": "RUSTFLAGS=\"--cfg kolibrie_verif\" is set by ./check for every harness build; the harness crate depends on /repo/kolibrie, /repo/shared, /repo/datalog by path, so each check rebuilds from the working tree",
            "baseline_off_cmd": "cd /repo && cargo test --workspace --no-fail-fast --offline",
            "source_commits": hooks_commits,
            "add_only": True,
        },
        "engines": [{
            "name": "kvh", "path": "harness", "serves_properties": claimed,
            "kind_free_text": "Rust crate: proptest-driven generators, reference models/oracles written from the specifications, one binary per property, common runner (16-worker pool, shrinking, replay files, known-finding classification, evidence)"}],
        "checks": checks,
        "notes": "Exit codes of every command: 0 held on everything explored (KNOWN-FINDING lines possible), 1 VIOLATION, 2 inconclusive (build failure/watchdog). Known findings: /verif/known_findings.json.",
        "not_applicable": [{"property_id": p, "reason": PENDING_REASON} for p in ALL if p not in claimed],
    }
    json.dump(m, open(f"{V}/MANIFEST.json", "w"), indent=1)
    print("claimed:", claimed)
if __name__ == "__main__":
    main()
