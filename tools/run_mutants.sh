#!/bin/bash
# tools/run_mutants.sh <Cxx> [tier]  -- runs every mutants/<Cxx>/*.diff (not FIX-*, not EQUIVALENT-*) through
# mutant_run.sh and writes mutants/<Cxx>/RESULTS.txt (caught / MISSED / build-failed, first VIOLATION sig).
ID=$1; TIER=${2:-quick}
OUT=/verif/mutants/$ID/RESULTS.txt
: > $OUT
for p in /verif/mutants/$ID/*.diff; do
  b=$(basename $p)
  case $b in FIX-*|FIX_*|ALL-FIXES*|EQUIVALENT-*) continue;; esac
  t0=$(date +%s)
  # patches named *FIX+* were written against the tree before the corresponding fix: commit: undo the fix first
  pp=$p
  case $b in *FIX+*) rv=$(ls /verif/mutants/$ID/REVERT-*.diff 2>/dev/null | head -1); [ -n "$rv" ] && pp="$rv:$p";; esac
  res=$(/verif/tools/mutant_run.sh $ID $pp --tier $TIER 2>&1)
  rc=$?
  t1=$(date +%s)
  sig=$(echo "$res" | grep -m1 -o "sig=[^ ]*" )
  if [ $rc -eq 1 ]; then v=caught; elif [ $rc -eq 0 ]; then v=MISSED; else v="inconclusive(rc=$rc)"; fi
  echo "$b $v $sig $((t1-t0))s" | tee -a $OUT
done
/verif/tools/mutant_run.sh --clean $ID
