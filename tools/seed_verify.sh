#!/bin/bash
# tools/seed_verify.sh <Cxx> <crate> [round] : verify a seeded change delivered in /tmp/seed-<Cxx>[-round]/out
#  - demo fails with the change, passes without (in the agent's worktree, reusing its target dir)
#  - runs the registered check against the change (scratch worktree) and stores everything under /verif/seeded/<Cxx>/
ID=$1; CRATE=$2; TAG=${3:+-$3}; S=/tmp/seed-$ID$TAG; R=$S/repo; OUT=/verif/seeded/$ID$TAG
mkdir -p $OUT
cp $S/out/patch.diff $OUT/patch.diff
cp $S/out/seeded_demo.rs $OUT/ 2>/dev/null
cp $S/out/demo_cmd.txt $OUT/ 2>/dev/null
cp $S/out/meta.json $OUT/meta.agent.json
cd $R
run_demo() { CARGO_TARGET_DIR=$S/target cargo test --offline -j 8 -p $CRATE --test seeded_demo 2>&1 | grep -E "^test result" | head -1; }
echo "== demo WITH change";   with=$(run_demo); echo "$with"
# without the change: reverse-apply the working-tree diff (no stash: a stash would write into /repo's shared git directory)
git diff > $S/wt.patch
git apply -R $S/wt.patch
echo "== demo WITHOUT change"; without=$(run_demo); echo "$without"
git apply $S/wt.patch
echo "== applies to /repo HEAD?"; git -C /repo apply --check $OUT/patch.diff && applies=yes || applies=no; echo $applies
echo "== registered check against the change"
res=$(/verif/tools/mutant_run.sh $ID $OUT/patch.diff --tier quick 2>&1); rc=$?
echo "$res" | grep -E "VIOLATION|sig=|INCONCLUSIVE|KNOWN|tier=" | cut -c1-400 | head -8
python3 - "$ID" "$with" "$without" "$applies" "$rc" "$res" "$ID$TAG" <<'PY'
import json,sys
id_,with_,without,applies,rc,res,dir_=sys.argv[1:8]
a=json.load(open(f'/verif/seeded/{dir_}/meta.agent.json'))
sigs=[l.strip() for l in res.split('\n') if 'sig=' in l][:4]
m={"property":id_,"breaks":a.get("what_it_breaks"),"needs_to_manifest":a.get("needs_to_manifest"),"files_touched":a.get("files_touched"),
   "agent_existing_tests":a.get("existing_tests_run"),
   "confirmed":{"demo_with_change":with_,"demo_without_change":without,"patch_applies_to_repo_head":applies,
                "how":"tools/seed_verify.sh: demo run in the agent's worktree with and without the source change (git stash), then tools/mutant_run.sh <id> patch.diff --tier quick (scratch worktree of /repo HEAD)"},
   "check_result":{"exit_code":int(rc),"caught":int(rc)==1,"first_signatures":[s[:300] for s in sigs]}}
json.dump(m,open(f'/verif/seeded/{dir_}/meta.json','w'),indent=1)
print("caught" if int(rc)==1 else f"NOT CAUGHT (rc={rc})")
PY
