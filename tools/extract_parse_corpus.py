#!/usr/bin/env python3
"""Extract request strings (SELECT / updates / RULE / REGISTER / RETRIEVE / MODEL / NEURAL RELATION / ML.PREDICT)
from the string literals of the repository's tests, examples, docs into /verif/corpus/parse_total/*.txt
(one request per file). Deterministic: sorted sources, de-duplicated, diverse selection by leading keywords."""
import os, re, sys, hashlib
ROOT = "/repo"
OUT = "/verif/corpus/parse_total"
srcs = []
for base in ["kolibrie/tests", "kolibrie/examples", "kolibrie/src", "kolibrie-http-server", "python", "docs", "README.md", "cli", "web"]:
    p = os.path.join(ROOT, base)
    if os.path.isfile(p):
        srcs.append(p)
    for d, _, fs in os.walk(p):
        if "/target" in d or "node_modules" in d:
            continue
        for f in sorted(fs):
            if f.endswith((".rs", ".md", ".py", ".rq", ".sparql", ".txt", ".js", ".ts", ".html")):
                srcs.append(os.path.join(d, f))
srcs.sort()
raw_re = re.compile(r'r(#+)"(.*?)"\1', re.S)
raw0_re = re.compile(r'r"([^"]*)"', re.S)
norm_re = re.compile(r'"((?:[^"\\]|\\.)*)"', re.S)
md_re = re.compile(r'```(?:sparql|sql|text|)\n(.*?)```', re.S)
KEY = re.compile(r'\b(SELECT|INSERT|DELETE|RULE|REGISTER|RETRIEVE|MODEL|NEURAL RELATION|ML\.PREDICT)\b', re.I)
def unescape(s):
    out = []; i = 0
    while i < len(s):
        c = s[i]
        if c == '\\' and i + 1 < len(s):
            n = s[i+1]
            if n == 'n': out.append('\n'); i += 2; continue
            if n == 't': out.append('\t'); i += 2; continue
            if n == 'r': out.append('\r'); i += 2; continue
            if n == '"': out.append('"'); i += 2; continue
            if n == '\\': out.append('\\'); i += 2; continue
            if n == '\n':
                i += 2
                while i < len(s) and s[i] in ' \t\n': i += 1
                continue
            if n == 'u' and i + 2 < len(s) and s[i+2] == '{':
                e = s.index('}', i)
                out.append(chr(int(s[i+3:e], 16))); i = e + 1; continue
        out.append(c); i += 1
    return ''.join(out)
cands = []
for p in srcs:
    try:
        t = open(p, encoding="utf-8").read()
    except Exception:
        continue
    found = []
    if p.endswith(".rs"):
        for m in raw_re.finditer(t): found.append(m.group(2))
        for m in raw0_re.finditer(t): found.append(m.group(1))
        t2 = raw_re.sub('""', t)
        for m in norm_re.finditer(t2): found.append(unescape(m.group(1)))
    elif p.endswith(".md"):
        for m in md_re.finditer(t): found.append(m.group(1))
    elif p.endswith((".rq", ".sparql")):
        found.append(t)
    else:
        for m in re.finditer(r'"""(.*?)"""', t, re.S): found.append(m.group(1))
        for m in re.finditer(r'`([^`]*)`', t, re.S): found.append(m.group(1))
    for s in found:
        s2 = s.strip()
        if 15 <= len(s2) <= 1400 and KEY.search(s2) and ('{' in s2) and ('format!' not in s2):
            # skip format templates with {} / {{ placeholders and obvious Rust code
            if re.search(r'\{\}|\{\{|\{[a-z_]+\}|\{:\?\}', s2): continue
            if re.search(r'\blet\b|\bfn\b|=>\s*\{|println!', s2): continue
            cands.append((p, s))
seen = set(); uniq = []
for p, s in cands:
    k = re.sub(r'\s+', ' ', s.strip())
    if k in seen: continue
    seen.add(k); uniq.append((p, s))
def klass(s):
    u = s.upper()
    ks = []
    for kw in ["REGISTER", "RETRIEVE", "TRAIN NEURAL", "NEURAL RELATION", "MODEL", "ML.PREDICT", "RULE", "PROB(", "INSERT DATA", "DELETE DATA", "DELETE WHERE", "DELETE", "INSERT", "SELECT", "GRAPH", "UNION", "FILTER", "BIND", "VALUES", "<<", "GROUP BY", "ORDER BY", "FROM NAMED", "WINDOW", "NOT ", "\"\"\"", "'''", "@", "^^", "#"]:
        if kw in u: ks.append(kw)
    return tuple(ks)
# diverse selection: round-robin over feature classes, shortest first inside a class
by = {}
for p, s in uniq:
    by.setdefault(klass(s), []).append((len(s), p, s))
for k in by: by[k].sort()
LIMIT = int(sys.argv[1]) if len(sys.argv) > 1 else 150
sel = []
keys = sorted(by)
rnd = 0
while len(sel) < LIMIT and any(by[k] for k in keys):
    for k in keys:
        if by[k] and len(sel) < LIMIT:
            sel.append(by[k].pop(0))
    rnd += 1
os.makedirs(OUT, exist_ok=True)
for f in os.listdir(OUT):
    if f.startswith("repo-"): os.remove(os.path.join(OUT, f))
sel.sort(key=lambda x: (x[1], x[2]))
for i, (_, p, s) in enumerate(sel):
    h = hashlib.sha1(s.encode()).hexdigest()[:8]
    tag = os.path.basename(p).replace('.', '_')
    open(os.path.join(OUT, f"repo-{i:03d}-{tag}-{h}.txt"), "w", encoding="utf-8").write(s)
print(len(cands), "candidates;", len(uniq), "unique;", len(by), "classes;", len(sel), "written; total bytes", sum(len(x[2]) for x in sel))
