#!/usr/bin/env python3
"""One-off generator: wires a `pbt_cNN` libFuzzer target (proptest strategy driven by PassThrough bytes) into a check.
   tools/add_pbt_fuzz_targets.py            -> adds the targets listed below that are not present yet"""
# measured under libFuzzer+ASAN: c09 60 exec/s, c18 85/s, c05 17/s, c19 6/s; c04/c06/c12/c15 need seconds per execution
# (their oracles dominate the cost) and were dropped again
# c18: 85/s at the start but 3/s once the corpus drifts to deep SLD trees (44 min for 48k executions): dropped as well
targets = [('c09', 'Random', 'C09', 'random')]
cargo = open('/verif/fuzz/Cargo.toml').read()
for (b, part, pid, pname) in targets:
    p = f'/verif/harness/src/bin/{b}.rs'
    s = open(p).read()
    if 'pub fn fuzz_one' in s:
        continue
    fz = f'''
/// Entry point of the libFuzzer target `pbt_{b}` (fuzz/fuzz_targets/pbt_{b}.rs includes this file as a module).
#[allow(dead_code)]
pub fn fuzz_one(data: &[u8]) -> Vec<Failure> {{
    thread_local! {{
        static S: (BoxedStrategy<<{part} as Part>::Case>, std::collections::HashSet<String>) = ({part}.strategy(Tier::Thorough), open_known_sigs_of("{pid}"));
    }}
    S.with(|(st, known)| kvh::engine::fuzz_one(&{part}, st, data, known))
}}

fn main() {{'''
    assert '\nfn main() {' in s
    s = s.replace('\nfn main() {', fz, 1)
    s = s.replace('    std::process::exit(s.finish());',
                  f'    // coverage-guided search over the same strategy and oracle (libFuzzer drives the random stream): thorough tier\n    s.fuzz_campaign(&{part}, "libfuzzer:{pname}", "pbt_{b}", 3_000, 8, 8192);\n    std::process::exit(s.finish());', 1)
    open(p, 'w').write(s)
    open(f'/verif/fuzz/fuzz_targets/pbt_{b}.rs', 'w').write(f'''//! libFuzzer target for {pid}: the bytes are the random stream of the check's own proptest strategy
//! (proptest PassThrough generator), the oracle is the check's own `check` function.
#![no_main]
#[allow(dead_code, unused_imports)]
#[path = "/verif/harness/src/bin/{b}.rs"]
mod prop;
kvh::pbt_fuzz_target!(prop::fuzz_one, "{pid}");
''')
    cargo += f'''
[[bin]]
name = "pbt_{b}"
path = "fuzz_targets/pbt_{b}.rs"
test = false
doc = false
bench = false
'''
open('/verif/fuzz/Cargo.toml', 'w').write(cargo)
print("done")
