#!/bin/bash
# Run one check against a mutated scratch copy of the repository (never touches /repo's working tree).
#   tools/mutant_run.sh <Cxx> <patch.diff> [harness args...]     -> prints verdict lines, exit code of the check
#   tools/mutant_run.sh --clean <Cxx>                            -> removes the scratch worktree and its build output
# Scratch location: /tmp/kvh-mut-<Cxx>/{repo,harness,root,target}
set -u
if [ "$1" = "--clean" ]; then
  D=/tmp/kvh-mut-$2
  git -C /repo worktree remove --force $D/repo 2>/dev/null
  rm -rf $D
  git -C /repo worktree prune
  exit 0
fi
ID=$1; PATCHES="$2"; shift 2
D=/tmp/kvh-mut-$ID
bin=$(echo $ID | tr 'A-Z' 'a-z')
mkdir -p $D
if [ ! -d $D/repo ]; then
  git -C /repo worktree add --detach $D/repo HEAD >/dev/null 2>&1 || { echo "worktree failed"; exit 2; }
fi
git -C $D/repo checkout -q --detach $(git -C /repo rev-parse HEAD) && git -C $D/repo checkout -q -- . && git -C $D/repo clean -fdq
IFS=':' read -ra PLIST <<< "$PATCHES"
for P in "${PLIST[@]}"; do
  if [ "$P" != "/dev/null" ]; then
    git -C $D/repo apply "$(readlink -f "$P")" || { echo "patch does not apply: $P"; exit 2; }
  fi
done
rm -rf $D/harness $D/root
mkdir -p $D/harness $D/root
cp -r /verif/harness/src /verif/harness/Cargo.toml /verif/harness/Cargo.lock $D/harness/
mkdir -p $D/harness/.cargo
printf '[net]\noffline = true\n' > $D/harness/.cargo/config.toml
sed -i "s#path = \"/repo/#path = \"$D/repo/#" $D/harness/Cargo.toml
cp /verif/known_findings.json $D/root/ 2>/dev/null
cp -r /verif/replays $D/root/ 2>/dev/null
( cd $D/harness && RUSTFLAGS="--cfg kolibrie_verif" CARGO_TARGET_DIR=$D/target cargo build --offline --quiet --bin $bin 2>$D/build.log ) || { echo "BUILD FAILED (see $D/build.log)"; tail -20 $D/build.log; exit 2; }
cd $D/root && KVH_ROOT=$D/root KVH_BIN=$D/target/debug KVH_NO_BUILD=1 VERIF_SEED=${VERIF_SEED:-0} /verif/check $ID "$@"
