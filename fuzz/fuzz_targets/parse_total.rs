#![no_main]
//! C16 totality target: bytes -> &str (valid UTF-8 as is, otherwise lossy) -> kvh::parse_oracle::check_total.
//! A failure whose signature is not an open known finding of C16 (known_findings.json, read once) aborts
//! the process so that libFuzzer records the input as a crash artifact.
use libfuzzer_sys::fuzz_target;
use std::sync::OnceLock;

static KNOWN: OnceLock<Vec<String>> = OnceLock::new();

fuzz_target!(|data: &[u8]| {
    let known = KNOWN.get_or_init(|| {
        // libfuzzer-sys installs a hook that aborts on the first panic; the oracle needs to *observe* panics
        // (catch_unwind) in order to classify them, so replace it by the harness' recording hook.
        kvh::engine::install_panic_hook();
        kvh::parse_oracle::open_known_sigs("C16")
    });
    let text = match std::str::from_utf8(data) {
        Ok(s) => std::borrow::Cow::Borrowed(s),
        Err(_) => String::from_utf8_lossy(data),
    };
    let fails = kvh::parse_oracle::check_total(&text);
    let new: Vec<&(String, String)> = fails.iter().filter(|(s, _)| !known.contains(s)).collect();
    if !new.is_empty() {
        for (sig, detail) in &new {
            eprintln!("C16-VIOLATION sig={sig} :: {detail}");
        }
        std::process::abort();
    }
});
