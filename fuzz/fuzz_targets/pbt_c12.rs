//! libFuzzer target for C12: the bytes are the random stream of the check's own proptest strategy
//! (proptest PassThrough generator), the oracle is the check's own `check` function.
#![no_main]
#[allow(dead_code, unused_imports)]
#[path = "/verif/harness/src/bin/c12.rs"]
mod prop;
kvh::pbt_fuzz_target!(prop::fuzz_one, "C12");
