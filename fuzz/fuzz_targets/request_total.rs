#![no_main]
//! C17: any request text over a small dataset through every string entry point; the oracle is
//! kvh::req_oracle::check_text (snapshot unchanged on query paths and on Err, Err for what the parser
//! rejects, no panic). Failures whose signature is an open known finding are tolerated so the campaign goes on.
use kvh::engine::Outcome;
use kvh::sparql::{DataSet, Tm};
use libfuzzer_sys::fuzz_target;
use std::sync::OnceLock;

fn known() -> &'static Vec<String> {
    static K: OnceLock<Vec<String>> = OnceLock::new();
    K.get_or_init(|| {
        std::fs::read_to_string("/verif/known_findings.json")
            .ok()
            .and_then(|s| serde_json::from_str::<serde_json::Value>(&s).ok())
            .map(|v| {
                v["findings"]
                    .as_array()
                    .map(|a| {
                        a.iter()
                            .filter(|f| f["status"] == "open" && f["property"] == "C17")
                            .flat_map(|f| f["sigs"].as_array().cloned().unwrap_or_default())
                            .filter_map(|s| s.as_str().map(|x| x.to_string()))
                            .collect()
                    })
                    .unwrap_or_default()
            })
            .unwrap_or_default()
    })
}

fn data() -> &'static DataSet {
    static D: OnceLock<DataSet> = OnceLock::new();
    D.get_or_init(|| {
        let i = |s: &str| Tm::Iri(format!("http://e/{s}"));
        DataSet {
            default: vec![[i("s0"), i("p0"), i("s1")], [i("s1"), i("tag"), Tm::Lit("red".into())], [i("s0"), i("val"), Tm::Num(3)]],
            named: vec![("http://e/g0".into(), vec![[i("s1"), i("p0"), i("o0")]])],
        }
    })
}

fuzz_target!(|bytes: &[u8]| {
    static HOOK: OnceLock<()> = OnceLock::new();
    HOOK.get_or_init(|| kvh::engine::install_panic_hook());
    let text = String::from_utf8_lossy(bytes);
    let mut o = Outcome::new();
    kvh::req_oracle::check_text(&mut o, data(), &text, false, true);
    let bad: Vec<_> = o.failures.iter().filter(|f| !known().contains(&f.sig)).collect();
    if !bad.is_empty() {
        eprintln!("C17 violation: {:?}", bad);
        std::process::abort();
    }
});
