//! libFuzzer target for C14: bytes -> small dataset of the property's domain -> export / re-import
//! round-trip oracle of `kvh::rt_oracle` (the same one `harness/src/bin/c14.rs` uses).
//! Stops (panics) only for failure signatures that are NOT listed as open known findings of C14 in
//! /verif/known_findings.json, so the campaign keeps searching behind the known ones.
#![no_main]
use arbitrary::Unstructured;
use kvh::rt_oracle::{ascii_json, check_roundtrip, decode_dataset, open_known_sigs, ByteSrc};
use libfuzzer_sys::fuzz_target;
use std::collections::HashSet;
use std::sync::OnceLock;

/// `Unstructured` as the byte source of the hand-written decoder: `arbitrary::<u8>()` yields the next
/// input byte and 0 once the input is exhausted — the same contract as `rt_oracle::SliceSrc`, which the
/// stable-toolchain replay of corpus and crash files uses.
struct Src<'a>(Unstructured<'a>);

impl<'a> ByteSrc for Src<'a> {
    fn byte(&mut self) -> u8 {
        self.0.arbitrary::<u8>().unwrap_or(0)
    }
}

fn known() -> &'static HashSet<String> {
    static K: OnceLock<HashSet<String>> = OnceLock::new();
    K.get_or_init(|| {
        // engine panics must reach the oracle's catch_unwind (libfuzzer-sys installs an aborting hook)
        kvh::engine::install_panic_hook();
        open_known_sigs("/verif")
    })
}

fuzz_target!(|data: &[u8]| {
    let known = known();
    let ds = decode_dataset(&mut Src(Unstructured::new(data)));
    let new: Vec<(String, String)> = check_roundtrip(&ds).into_iter().filter(|(sig, _)| !known.contains(sig)).collect();
    if !new.is_empty() {
        for (sig, detail) in &new {
            eprintln!("C14 VIOLATION sig={sig} :: {detail}");
        }
        eprintln!("dataset={}", ascii_json(&ds));
        // libfuzzer-sys aborts the process when the target panics: this writes the crash file
        panic!("C14 round trip violated: {}", new[0].0);
    }
});
